// C09 (socket layer) and C13 (poll_at) — raw::Socket never merges, splits, truncates, duplicates or
// reorders datagrams.  Spliced into src/socket/raw.rs (private fields of `Socket` reachable).
//
// Same method as socket_udp.rs, with smaller bounds (ring wrap-around and padding records are explored by
// socket_udp.rs and storage_packet.rs; whole IP packets make the payload ring six times larger here): the
// socket's PacketBuffers (1..=2 metadata slots, 44 payload bytes) are brought into a pre-state by a fixed
// script of two public-API steps with symbolic arguments (every step may be a no-op), shadowed by a ghost
// FIFO; then ONE operation under test; then the queue is drained through the public API and compared with
// the ghost.  A raw datagram is a whole IP packet: here an
// IPv4 header (20 bytes, every field derived from two symbolic bytes `tag`, `k2` and a symbolic protocol)
// followed by 0..=4 payload bytes pat(tag, i); also packets cut below 20 bytes, with another version nibble
// or with fragmentation fields set, which `dispatch` must drop without emitting them.
#[cfg(all(feature = "proto-ipv4", feature = "medium-ip"))]
#[allow(dead_code, unused_imports, unused_variables, unused_mut, unused_assignments)]
mod v_socket_raw {
    use super::*;
    use crate::iface::{Config, Interface};
    use crate::phy::{ChecksumCapabilities, Medium};
    use crate::time::Instant;
    use crate::verif_common::*;
    use crate::verif_dev::NullDev;
    use crate::wire::{HardwareAddress, IpAddress, IpCidr, Ipv4Address};
    #[cfg(feature = "proto-ipv6")]
    use crate::wire::Ipv6Address;

    const LOCAL: Ipv4Address = Ipv4Address::new(192, 168, 1, 1);
    const MC: usize = 2; // metadata slots: 1..=2 symbolic
    const PC: usize = 44; // payload ring: a 24-byte and a 20-byte packet, not two of 24 (symbolic capacities: socket_udp.rs)
    const H4: usize = 20; // IPv4 header
    const PD: usize = 4; // payload bytes: 0..=4
    const BL: usize = H4 + PD; // largest packet: 24 bytes

    fn pat(tag: u8, i: usize) -> u8 {
        tag.wrapping_mul(7).wrapping_add(i as u8)
    }
    fn src_of(tag: u8, k2: u8) -> Ipv4Address {
        Ipv4Address::new(10, k2, tag, 1)
    }
    fn dst_of(tag: u8, k2: u8) -> Ipv4Address {
        Ipv4Address::new(k2, 20, 2, tag)
    }
    fn hop_of(tag: u8, k2: u8) -> u8 {
        tag ^ k2
    }

    // ---------------------------------------------------------------- ghost FIFO
    #[derive(Clone, Copy)]
    struct G {
        valid: bool,
        /// the datagram offered by the `process` under test: may have been dropped as a whole
        opt: bool,
        tag: u8,
        k2: u8,
        proto: u8,
        /// whole packet size (header + payload)
        size: usize,
        /// first header byte and flags / fragment offset as written by the user
        b0: u8,
        frag: u16,
    }
    const GE: G = G { valid: false, opt: false, tag: 0, k2: 0, proto: 0, size: 0, b0: 0, frag: 0 };

    impl G {
        /// a well-formed, unfragmented IPv4 packet: anything else in the queue is dropped by `dispatch`
        fn good(&self) -> bool {
            self.size >= H4 && self.b0 == 0x45 && (self.frag & 0x3fff) == 0
        }
        /// the IPv4 packet as bytes; the checksum field holds arbitrary bytes
        fn bytes(&self, ck: u16) -> [u8; BL] {
            let s = src_of(self.tag, self.k2).octets();
            let d = dst_of(self.tag, self.k2).octets();
            [
                self.b0, 0, 0, self.size as u8, self.tag, self.k2, (self.frag >> 8) as u8, self.frag as u8,
                hop_of(self.tag, self.k2), self.proto, (ck >> 8) as u8, ck as u8,
                s[0], s[1], s[2], s[3], d[0], d[1], d[2], d[3],
                pat(self.tag, 0), pat(self.tag, 1), pat(self.tag, 2), pat(self.tag, 3),
            ]
        }
    }

    struct Ghost {
        q: [G; MC],
        overflow: bool,
        popped: bool,
    }
    impl Ghost {
        fn new() -> Ghost {
            Ghost { q: [GE; MC], overflow: false, popped: false }
        }
        fn push(&mut self, g: G) {
            if !self.q[0].valid { self.q[0] = g; }
            else if !self.q[1].valid { self.q[1] = g; }
            else { self.overflow = true; }
        }
        fn pop(&mut self) {
            if self.q[0].valid { self.popped = true; }
            self.q[0] = self.q[1];
            self.q[1] = GE;
        }
        fn count(&self) -> usize {
            self.q[0].valid as usize + self.q[1].valid as usize
        }
        fn bytes(&self) -> usize {
            (if self.q[0].valid { self.q[0].size } else { 0 }) + (if self.q[1].valid { self.q[1].size } else { 0 })
        }
    }

    /// straight-line (no loop: keeps the unwind bound at what smoltcp's own loops need)
    fn copy_into(buf: &mut [u8], src: &[u8; BL]) {
        macro_rules! put {
            ($($i:expr)*) => { $( if $i < buf.len() { buf[$i] = src[$i]; } )* };
        }
        put!(0 1 2 3 4 5 6 7 8 9 10 11 12 13 14 15 16 17 18 19 20 21 22 23);
    }

    // ---------------------------------------------------------------- environment
    macro_rules! env {
        ($dev:ident, $iface:ident, $cx:ident) => {
            let mut $dev = NullDev { medium: Medium::Ip, mtu: 1500, checksum: ChecksumCapabilities::ignored() };
            let mut $iface = Interface::new(Config::new(HardwareAddress::Ip), &mut $dev, Instant::from_millis(0));
            $iface.update_ip_addrs(|a| {
                a.push(IpCidr::new(IpAddress::Ipv4(LOCAL), 24)).unwrap();
            });
            let $cx = $iface.context();
        };
    }

    macro_rules! sock {
        ($s:ident, $ver:expr, $proto:expr, $rmc:expr, $rpc:expr, $tmc:expr, $tpc:expr) => {
            let mut rxm = [PacketMetadata::EMPTY; MC];
            let mut rxp = [0u8; PC];
            let mut txm = [PacketMetadata::EMPTY; MC];
            let mut txp = [0u8; PC];
            let (rmc, rpc, tmc, tpc): (usize, usize, usize, usize) = ($rmc, $rpc, $tmc, $tpc);
            let mut $s = Socket::new(
                $ver,
                $proto,
                PacketBuffer::new(&mut rxm[..rmc], &mut rxp[..rpc]),
                PacketBuffer::new(&mut txm[..tmc], &mut txp[..tpc]),
            );
        };
    }

    fn any_slots() -> usize {
        let v = any_le(MC);
        kani::assume(v >= 1);
        v
    }

    /// bound protocol: none or any protocol number
    fn any_proto() -> Option<IpProtocol> {
        if kani::any() { Some(IpProtocol::from(kani::any::<u8>())) } else { None }
    }

    /// bound version for the IPv4 harnesses: none or IPv4
    fn none_or_v4() -> Option<IpVersion> {
        if kani::any() { Some(IpVersion::Ipv4) } else { None }
    }

    // ---------------------------------------------------------------- transmit side: script steps
    const VIA_SEND: u8 = 0;
    const VIA_SLICE: u8 = 1;
    const VIA_WITH: u8 = 2;

    /// a symbolic packet of 1..=24 bytes (an empty datagram is the subject of raw_send_empty_datagram)
    fn any_packet() -> G {
        let size = any_le(BL);
        kani::assume(size >= 1);
        let b0: u8 = kani::any();
        // IPv4 headers with options are outside the bounds
        kani::assume((b0 >> 4) != 4 || b0 == 0x45);
        G { valid: true, opt: false, tag: kani::any(), k2: kani::any(), proto: kani::any(), size, b0, frag: kani::any() }
    }

    fn step_send(s: &mut Socket<'_>, g: &mut Ghost, how: u8) -> bool {
        if kani::any() {
            return false;
        }
        let m = any_packet();
        let bytes = m.bytes(kani::any());
        let size = m.size;
        let ok = if how == VIA_SEND {
            match s.send(size) {
                Ok(buf) => {
                    copy_into(buf, &bytes);
                    true
                }
                Err(_) => false,
            }
        } else if how == VIA_SLICE {
            s.send_slice(&bytes[..size]).is_ok()
        } else {
            let max = any_le(BL);
            kani::assume(size <= max);
            s.send_with(max, |b| {
                copy_into(&mut b[..size], &bytes);
                size
            })
            .is_ok()
        };
        if ok {
            g.push(m);
        }
        ok
    }

    /// does `dispatch` hand this queued packet to `emit` (documented: malformed packets and packets of
    /// another protocol than the bound one are silently dropped)
    fn emittable(e: &G, proto: &Option<IpProtocol>) -> bool {
        e.valid && e.good() && (proto.is_none() || *proto == Some(IpProtocol::from(e.proto)))
    }

    fn step_dispatch(s: &mut Socket<'_>, cx: &mut Context, g: &mut Ghost, proto: &Option<IpProtocol>) -> bool {
        let ok: bool = kani::any();
        let _ = s.dispatch(cx, |_cx, _p| if ok { Ok(()) } else { Err(()) });
        // a head that is not emittable is dropped without consulting emit
        if ok || !emittable(&g.q[0], proto) {
            g.pop();
        }
        ok
    }

    /// what one `dispatch` hands to `emit`, compared with the ghost entry `e`
    struct Seen {
        seen: bool,
        addr: bool,
        hdr: bool,
        len: bool,
        byte: bool,
    }

    fn dispatch_recording(s: &mut Socket<'_>, cx: &mut Context, e: &G, emit_ok: bool) -> (Seen, Result<(), ()>) {
        let mut o = Seen { seen: false, addr: false, hdr: false, len: false, byte: false };
        let k = any_lt(PD);
        let r = s.dispatch(cx, |_cx, (ip, payload)| {
            o.seen = true;
            // the addresses, protocol and hop limit the user wrote into the header
            o.addr = ip.src_addr() == IpAddress::Ipv4(src_of(e.tag, e.k2)) && ip.dst_addr() == IpAddress::Ipv4(dst_of(e.tag, e.k2));
            o.hdr = ip.next_header() == IpProtocol::from(e.proto) && ip.hop_limit() == hop_of(e.tag, e.k2);
            o.len = e.size >= H4 && payload.len() == e.size - H4 && ip.payload_len() == payload.len();
            o.byte = k >= payload.len() || payload[k] == pat(e.tag, k);
            if emit_ok { Ok(()) } else { Err(()) }
        });
        (o, r)
    }

    fn assert_emitted_is(o: &Seen, e: &G) {
        assert!(e.valid && e.good(), "prop:c09_raw_tx_no_extra_datagram");
        assert!(o.len, "prop:c09_raw_tx_datagram_whole_not_merged_not_split");
        assert!(o.byte, "prop:c09_raw_tx_payload_bytes_unmodified");
        assert!(o.addr, "prop:c09_raw_tx_addresses_as_written_by_user");
        assert!(o.hdr, "prop:c09_raw_tx_protocol_and_hop_limit_as_written_by_user");
    }

    /// The transmit queue equals the ghost: MC dispatches emit exactly the ghost's emittable packets, each
    /// once, whole, in order; the others are dropped, never emitted.
    fn drain_tx(s: &mut Socket<'_>, cx: &mut Context, g: &Ghost, proto: &Option<IpProtocol>) {
        assert!(!g.overflow, "prop:c09_raw_tx_more_datagrams_than_metadata_slots");
        let mut i = 0;
        while i < MC {
            let e = g.q[i];
            let (o, r) = dispatch_recording(s, cx, &e, true);
            assert!(r.is_ok(), "prop:c09_raw_dispatch_error_only_from_emit");
            if emittable(&e, proto) {
                assert!(o.seen, "prop:c09_raw_tx_no_datagram_lost");
                assert_emitted_is(&o, &e);
            } else {
                assert!(!o.seen, "prop:c09_raw_tx_no_extra_datagram");
            }
            i += 1;
        }
    }

    macro_rules! tx_setup {
        ($dev:ident, $iface:ident, $cx:ident, $s:ident, $g:ident, $proto:ident) => {
            env!($dev, $iface, $cx);
            let $proto = any_proto();
            sock!($s, none_or_v4(), $proto, 1, 0, any_slots(), PC);
            let mut $g = Ghost::new();
        };
    }

    // @harness props=C09 cfg=KG tier=q to=900 mem=8 unwind=6 opts=nomem covers=4 funcs=raw::Socket::send_slice;raw::Socket::send;raw::Socket::send_with;raw::Socket::dispatch;Ipv4Packet::new_checked;Ipv4Repr::parse;PacketBuffer::enqueue;PacketBuffer::dequeue_with bounds=tx_metadata_slots_1..=2;_payload_ring_44_bytes;_pre-state_=_send,_dispatch_(each_may_be_a_no-op);_packets_of_1..=24_bytes_(IPv4_header_without_options_+_0..=4_payload_bytes,_or_malformed);_socket_bound_to_no/IPv4_version_and_no/any_protocol
    #[kani::proof]
    pub(crate) fn raw_send() {
        tx_setup!(dev, iface, cx, s, g, proto);
        step_send(&mut s, &mut g, VIA_SEND);
        step_dispatch(&mut s, cx, &mut g, &proto);
        let before = g.count();
        let m = any_packet();
        let bytes = m.bytes(kani::any());
        let pcap = s.payload_send_capacity();
        let mcap = s.packet_send_capacity();
        let r = s.send_slice(&bytes[..m.size]);
        match r {
            Ok(()) => g.push(m),
            Err(SendError::BufferFull) => {
                // nothing queued => any datagram up to the payload capacity is accepted
                assert!(!(before == 0 && m.size <= pcap), "prop:c09_raw_empty_tx_accepts_up_to_capacity");
            }
        }
        kani::cover!(r.is_ok() && before == 1 && m.size == BL, "second datagram accepted behind the first");
        kani::cover!(r.is_ok() && before == 0 && g.popped, "accepted on a queue emptied by dispatch");
        kani::cover!(r.is_err() && before == 1 && mcap == 2, "refused: payload ring too full");
        kani::cover!(r.is_err() && before == mcap, "refused: metadata slots full");
        drain_tx(&mut s, cx, &g, &proto);
    }

    // @harness props=C09 cfg=KG tier=q to=900 mem=8 unwind=6 opts=nomem covers=3 funcs=raw::Socket::send_with;raw::Socket::send_slice;raw::Socket::dispatch;PacketBuffer::enqueue_with_infallible;PacketBuffer::dequeue_with bounds=tx_metadata_slots_1..=2;_payload_ring_44_bytes;_pre-state_=_send_slice,_dispatch_(each_may_be_a_no-op);_max_size_1..=24,_written_packet_1..=max_size_bytes
    #[kani::proof]
    pub(crate) fn raw_send_with() {
        tx_setup!(dev, iface, cx, s, g, proto);
        step_send(&mut s, &mut g, VIA_SLICE);
        step_dispatch(&mut s, cx, &mut g, &proto);
        let before = g.count();
        let m = any_packet();
        let take = m.size;
        let max = any_le(BL);
        kani::assume(take <= max);
        let bytes = m.bytes(kani::any());
        let pcap = s.payload_send_capacity();
        let mcap = s.packet_send_capacity();
        let mut offered = 0usize;
        let mut called = false;
        let r = s.send_with(max, |b| {
            called = true;
            offered = b.len();
            copy_into(&mut b[..take], &bytes);
            take
        });
        match r {
            Ok(n) => {
                assert!(called && offered == max && n == take, "prop:c09_raw_send_with_offers_max_and_keeps_written_size");
                g.push(m);
            }
            Err(SendError::BufferFull) => {
                assert!(!called, "prop:c09_raw_send_with_callback_not_called_on_refusal");
                // nothing queued => any datagram up to the payload capacity is accepted
                assert!(!(before == 0 && max <= pcap), "prop:c09_raw_empty_tx_accepts_up_to_capacity");
            }
        }
        kani::cover!(r.is_ok() && before == 1 && take < max, "second datagram accepted and shrunk");
        kani::cover!(r.is_ok() && before == 0 && g.popped, "accepted on a queue emptied by dispatch (read pointer moved)");
        kani::cover!(r.is_err() && before == 1 && mcap == 2, "refused: payload ring too full");
        drain_tx(&mut s, cx, &g, &proto);
    }

    // @harness props=C09 cfg=KG tier=q to=900 mem=8 unwind=6 opts=nomem covers=4 funcs=raw::Socket::dispatch;raw::Socket::send_slice;raw::Socket::send_with;Ipv4Packet::new_checked;Ipv4Repr::parse;PacketBuffer::dequeue_with bounds=tx_metadata_slots_1..=2;_payload_ring_44_bytes;_pre-state_=_send_slice,_send_with_(each_may_be_a_no-op);_emit_returns_Ok_or_Err;_packets_of_1..=24_bytes_(well-formed_IPv4_or_malformed)
    #[kani::proof]
    pub(crate) fn raw_dispatch() {
        tx_setup!(dev, iface, cx, s, g, proto);
        step_send(&mut s, &mut g, VIA_SLICE);
        step_send(&mut s, &mut g, VIA_WITH);
        let before = g.count();
        let head = g.q[0];
        let emit_ok: bool = kani::any();
        let (o, r) = dispatch_recording(&mut s, cx, &head, emit_ok);
        let em = emittable(&head, &proto);
        if em {
            assert!(o.seen, "prop:c09_raw_tx_no_datagram_lost");
            assert_emitted_is(&o, &head);
            assert!(r.is_ok() == emit_ok, "prop:c09_raw_dispatch_error_only_from_emit");
            if emit_ok {
                g.pop(); // exactly the head leaves the queue
            }
            // emit failed: nothing leaves the queue, the same datagram is offered again by the drain below
        } else {
            // empty, malformed or wrong protocol: dropped (at most once on the wire), emit not consulted
            assert!(!o.seen && r.is_ok(), "prop:c09_raw_tx_no_extra_datagram");
            g.pop();
        }
        kani::cover!(em && !emit_ok && before == 2, "emit Err path taken with two queued");
        kani::cover!(em && emit_ok && before == 2 && head.size == BL, "emit Ok pops the head, one remains");
        kani::cover!(head.valid && !head.good() && before == 2, "malformed head dropped, one remains");
        kani::cover!(head.valid && head.good() && !em && before == 2, "packet of another protocol dropped, one remains");
        drain_tx(&mut s, cx, &g, &proto);
    }

    // @harness props=C09,C13 cfg=KG tier=q to=900 mem=8 unwind=6 opts=nomem covers=3 funcs=raw::Socket::poll_at;raw::Socket::send_slice;raw::Socket::send_with;raw::Socket::dispatch bounds=tx_metadata_slots_1..=2;_payload_ring_44_bytes;_script_send_slice,_send_with,_dispatch,_send_slice,_dispatch,_dispatch_(each_may_be_a_no-op);_poll_at_probed_after_every_step
    #[kani::proof]
    pub(crate) fn raw_poll_at() {
        tx_setup!(dev, iface, cx, s, g, proto);
        assert!(s.poll_at(cx) == PollAt::Ingress, "prop:c13_raw_poll_at_ingress_when_nothing_queued");
        step_send(&mut s, &mut g, VIA_SLICE);
        let p1 = s.poll_at(cx);
        assert!((g.count() > 0) == (p1 == PollAt::Now) && (g.count() == 0) == (p1 == PollAt::Ingress), "prop:c13_raw_poll_at_now_iff_datagram_queued");
        step_send(&mut s, &mut g, VIA_WITH);
        let p2 = s.poll_at(cx);
        assert!((g.count() > 0) == (p2 == PollAt::Now) && (g.count() == 0) == (p2 == PollAt::Ingress), "prop:c13_raw_poll_at_now_iff_datagram_queued");
        step_dispatch(&mut s, cx, &mut g, &proto);
        let p3 = s.poll_at(cx);
        assert!((g.count() > 0) == (p3 == PollAt::Now) && (g.count() == 0) == (p3 == PollAt::Ingress), "prop:c13_raw_poll_at_now_iff_datagram_queued");
        // a send that may be refused after its padding record was written, then the last datagram leaves
        let sent = step_send(&mut s, &mut g, VIA_SLICE);
        let p4 = s.poll_at(cx);
        assert!(g.count() == 0 || p4 == PollAt::Now, "prop:c13_raw_poll_at_now_while_datagram_queued");
        let ok = step_dispatch(&mut s, cx, &mut g, &proto);
        let p5 = s.poll_at(cx);
        assert!(g.count() == 0 || p5 == PollAt::Now, "prop:c13_raw_poll_at_now_while_datagram_queued");
        assert!(p5 == PollAt::Now || p5 == PollAt::Ingress, "prop:c13_raw_poll_at_now_or_ingress");
        // non-spinning: a dispatch that had nothing to emit and leaves nothing queued leaves no deadline behind
        let offered = emittable(&g.q[0], &proto);
        let mut seen = false;
        let _ = s.dispatch(cx, |_cx, _p| {
            seen = true;
            Err::<(), ()>(())
        });
        assert!(seen == offered, "prop:c09_raw_tx_no_datagram_lost");
        if !offered {
            g.pop(); // nothing queued, or a head that is dropped without being emitted
        }
        let p6 = s.poll_at(cx);
        assert!(seen || g.count() > 0 || p6 == PollAt::Ingress, "prop:c13_raw_idle_dispatch_leaves_no_deadline");
        kani::cover!(p2 == PollAt::Now && p5 == PollAt::Ingress, "queue drained: Now -> Ingress");
        kani::cover!(!sent && g.count() == 0 && g.popped && ok && p5 == PollAt::Now && p6 == PollAt::Ingress, "only a padding record left: one idle dispatch, then Ingress");
        kani::cover!(!ok && g.count() == 2, "emit failed with two queued: still Now");
    }

    // ---------------------------------------------------------------- receive side: script steps
    /// a symbolic received IPv4 packet (repr + payload), 20 + 0..=4 bytes
    fn any_rx_packet(proto: &Option<IpProtocol>) -> G {
        let p = any_le(PD);
        let pb: u8 = kani::any();
        // the interface hands the socket only what `accepts` admits
        kani::assume(proto.is_none() || *proto == Some(IpProtocol::from(pb)));
        G { valid: true, opt: false, tag: kani::any(), k2: kani::any(), proto: pb, size: H4 + p, b0: 0x45, frag: 0x4000 }
    }

    fn process_packet(s: &mut Socket<'_>, cx: &mut Context, m: &G) {
        let payload = [pat(m.tag, 0), pat(m.tag, 1), pat(m.tag, 2), pat(m.tag, 3)];
        let ip = IpRepr::Ipv4(Ipv4Repr {
            src_addr: src_of(m.tag, m.k2),
            dst_addr: dst_of(m.tag, m.k2),
            next_header: IpProtocol::from(m.proto),
            payload_len: m.size - H4,
            hop_limit: hop_of(m.tag, m.k2),
        });
        assert!(s.accepts(&ip), "prop:c09_raw_accepts_bound_version_and_protocol");
        s.process(cx, &ip, &payload[..m.size - H4]);
    }

    /// One accepted packet (skipped or dropped as a whole: the step may be a no-op).  A padding record alone
    /// is shorter than the packet it precedes, so acceptance is visible in the byte count.
    fn step_process(s: &mut Socket<'_>, cx: &mut Context, g: &mut Ghost, proto: &Option<IpProtocol>) -> bool {
        if kani::any() {
            return false;
        }
        let m = any_rx_packet(proto);
        let before = s.recv_queue();
        process_packet(s, cx, &m);
        let ok = s.recv_queue() >= before + m.size;
        if ok {
            g.push(m);
        }
        ok
    }

    fn step_recv(s: &mut Socket<'_>, g: &mut Ghost) {
        if kani::any() {
            let _ = s.recv();
            g.pop();
        }
    }

    /// the received bytes are the IPv4 packet of `e`, whole: header fields as re-serialized from the repr
    /// (identification, flags and checksum are not part of the repr), payload unmodified
    fn bytes_are(buf: &[u8], e: &G) -> bool {
        if buf.len() != e.size || e.size < H4 {
            return false;
        }
        let k = any_lt(PD);
        let a = any_lt(4);
        buf[0] == 0x45
            && buf[2] == 0
            && buf[3] == e.size as u8
            && buf[8] == hop_of(e.tag, e.k2)
            && buf[9] == e.proto
            && buf[12 + a] == src_of(e.tag, e.k2).octets()[a]
            && buf[16 + a] == dst_of(e.tag, e.k2).octets()[a]
            && (k >= e.size - H4 || buf[H4 + k] == pat(e.tag, k))
    }

    /// the receive queue equals the ghost (an `opt` tail entry may be missing as a whole); returns whether
    /// the `opt` entry was delivered
    fn drain_rx(s: &mut Socket<'_>, g: &Ghost) -> bool {
        assert!(!g.overflow, "prop:c09_raw_rx_more_datagrams_than_metadata_slots");
        let mut tail = false;
        let mut i = 0;
        while i < MC {
            let e = g.q[i];
            match s.recv() {
                Ok(buf) => {
                    assert!(e.valid, "prop:c09_raw_rx_no_extra_datagram");
                    assert!(buf.len() == e.size, "prop:c09_raw_rx_datagram_whole_not_merged_not_split");
                    assert!(bytes_are(buf, &e), "prop:c09_raw_rx_packet_bytes_unmodified");
                    if e.opt {
                        tail = true;
                    }
                }
                Err(err) => {
                    assert!(err == RecvError::Exhausted, "prop:c09_raw_recv_error_kind");
                    assert!(!e.valid || e.opt, "prop:c09_raw_rx_no_datagram_lost");
                }
            }
            i += 1;
        }
        tail
    }

    macro_rules! rx_setup {
        ($dev:ident, $iface:ident, $cx:ident, $s:ident, $g:ident, $proto:ident) => {
            env!($dev, $iface, $cx);
            let $proto = any_proto();
            sock!($s, none_or_v4(), $proto, any_slots(), PC, 1, 0);
            let mut $g = Ghost::new();
        };
    }

    // @harness props=C09 cfg=KG tier=q to=900 mem=8 unwind=6 opts=nomem covers=4 funcs=raw::Socket::process;raw::Socket::accepts;raw::Socket::recv;Ipv4Repr::emit;PacketBuffer::enqueue;PacketBuffer::dequeue bounds=rx_metadata_slots_1..=2;_payload_ring_44_bytes;_pre-state_=_process,_recv_(each_may_be_a_no-op);_IPv4_packets_with_0..=4_payload_bytes,_any_protocol_the_socket_accepts
    #[kani::proof]
    pub(crate) fn raw_process_recv() {
        rx_setup!(dev, iface, cx, s, g, proto);
        step_process(&mut s, cx, &mut g, &proto);
        step_recv(&mut s, &mut g);
        let before = g.count();
        let mut m = any_rx_packet(&proto);
        let pcap = s.payload_recv_capacity();
        let mcap = s.packet_recv_capacity();
        process_packet(&mut s, cx, &m);
        // delivered exactly once, header and payload, or not at all
        m.opt = true;
        g.push(m);
        let bytes_after = s.recv_queue();
        let delivered = drain_rx(&mut s, &g);
        if !delivered {
            assert!(!(before == 0 && m.size <= pcap), "prop:c09_raw_empty_rx_accepts_up_to_capacity");
        } else {
            assert!(before < mcap && m.size <= pcap, "prop:c09_raw_rx_delivery_within_capacity");
        }
        kani::cover!(delivered && before == 1, "second datagram delivered behind the first");
        kani::cover!(delivered && before == 0 && g.popped, "delivered into a queue emptied by recv");
        kani::cover!(!delivered && before == 1 && mcap == 2, "dropped whole: payload ring too full");
        kani::cover!(!delivered && before == mcap, "dropped whole: metadata slots full");
    }

    // @harness props=C09 cfg=KG tier=q to=900 mem=8 unwind=6 opts=nomem covers=3 funcs=raw::Socket::recv_slice;raw::Socket::recv;raw::Socket::process bounds=rx_metadata_slots_1..=2;_payload_ring_44_bytes;_pre-state_=_process,_process_(each_may_be_a_no-op);_user_buffer_0..=24_bytes
    #[kani::proof]
    pub(crate) fn raw_recv_truncated() {
        rx_setup!(dev, iface, cx, s, g, proto);
        step_process(&mut s, cx, &mut g, &proto);
        step_process(&mut s, cx, &mut g, &proto);
        let head = g.q[0];
        let ulen = any_le(BL);
        let mut ubuf = [0xEEu8; BL];
        let r = s.recv_slice(&mut ubuf[..ulen]);
        match r {
            Ok(n) => {
                assert!(head.valid, "prop:c09_raw_rx_no_extra_datagram");
                assert!(n == head.size && n <= ulen, "prop:c09_raw_recv_slice_whole_datagram_or_error");
                assert!(bytes_are(&ubuf[..n], &head), "prop:c09_raw_rx_packet_bytes_unmodified");
                g.pop();
            }
            Err(RecvError::Truncated) => {
                // documented: "the packet is dropped and a RecvError::Truncated error is returned"
                assert!(head.valid && ulen < head.size, "prop:c09_raw_truncated_only_when_buffer_too_small");
                g.pop();
            }
            Err(RecvError::Exhausted) => assert!(!head.valid, "prop:c09_raw_rx_no_datagram_lost"),
        }
        kani::cover!(r == Err(RecvError::Truncated) && g.count() >= 1, "short user buffer: Truncated, next datagram still queued");
        kani::cover!(matches!(r, Ok(n) if n == ulen && n >= 22) && g.count() >= 1, "exact-size user buffer");
        kani::cover!(matches!(r, Ok(n) if n < ulen), "larger user buffer");
        drain_rx(&mut s, &g);
    }

    // @harness props=C09 cfg=KG tier=q to=900 mem=8 unwind=6 opts=nomem covers=3 funcs=raw::Socket::peek;raw::Socket::peek_slice;raw::Socket::recv;PacketBuffer::peek bounds=rx_metadata_slots_1..=2;_payload_ring_44_bytes;_pre-state_=_process,_process_(each_may_be_a_no-op);_user_buffer_0..=24_bytes
    #[kani::proof]
    pub(crate) fn raw_peek() {
        rx_setup!(dev, iface, cx, s, g, proto);
        step_process(&mut s, cx, &mut g, &proto);
        step_process(&mut s, cx, &mut g, &proto);
        let head = g.q[0];
        match s.peek() {
            Ok(buf) => {
                assert!(head.valid, "prop:c09_raw_rx_no_extra_datagram");
                assert!(buf.len() == head.size, "prop:c09_raw_rx_datagram_whole_not_merged_not_split");
                assert!(bytes_are(buf, &head), "prop:c09_raw_rx_packet_bytes_unmodified");
            }
            Err(e) => assert!(e == RecvError::Exhausted && !head.valid, "prop:c09_raw_rx_no_datagram_lost"),
        }
        let ulen = any_le(BL);
        let mut ubuf = [0xEEu8; BL];
        let mut trunc = false;
        match s.peek_slice(&mut ubuf[..ulen]) {
            Ok(n) => {
                assert!(head.valid, "prop:c09_raw_rx_no_extra_datagram");
                assert!(n == head.size && n <= ulen, "prop:c09_raw_peek_slice_whole_datagram_or_error");
                assert!(bytes_are(&ubuf[..n], &head), "prop:c09_raw_rx_packet_bytes_unmodified");
            }
            Err(RecvError::Truncated) => {
                assert!(head.valid && ulen < head.size, "prop:c09_raw_truncated_only_when_buffer_too_small");
                // documented: "no data is copied into the provided buffer"
                let k = any_lt(BL);
                assert!(ubuf[k] == 0xEE, "prop:c09_raw_peek_slice_truncated_copies_nothing");
                trunc = true;
            }
            Err(RecvError::Exhausted) => assert!(!head.valid, "prop:c09_raw_rx_no_datagram_lost"),
        }
        kani::cover!(trunc && g.count() >= 2, "peek_slice Truncated with two queued");
        kani::cover!(!trunc && head.valid && head.size >= 22, "peek_slice copied the head");
        kani::cover!(head.valid && g.count() == 2, "peek with two queued");
        // peeking consumes nothing, also when it reported Truncated
        drain_rx(&mut s, &g);
    }

    // ---------------------------------------------------------------- accepts
    // @harness props=C09 cfg=KG tier=q to=600 mem=4 unwind=6 opts=nomem covers=3 funcs=raw::Socket::accepts;raw::Socket::new bounds=socket_bound_to_no/IPv4/IPv6_version_and_no/any_protocol;_IPv4_or_IPv6_repr_with_any_next_header
    #[kani::proof]
    pub(crate) fn raw_accepts() {
        let bver: u8 = kani::any();
        let ver = match bver {
            0 => None,
            1 => Some(IpVersion::Ipv4),
            #[cfg(feature = "proto-ipv6")]
            2 => Some(IpVersion::Ipv6),
            _ => None,
        };
        let proto = any_proto();
        sock!(s, ver, proto, 1, 0, 1, 0);
        assert!(s.ip_version() == ver && s.ip_protocol() == proto, "prop:c09_raw_new_records_binding");
        let nh: u8 = kani::any();
        let mut v4: bool = true;
        #[cfg(feature = "proto-ipv6")]
        {
            v4 = kani::any();
        }
        let ip = if v4 {
            IpRepr::Ipv4(Ipv4Repr { src_addr: LOCAL, dst_addr: LOCAL, next_header: IpProtocol::from(nh), payload_len: 0, hop_limit: 64 })
        } else {
            #[cfg(feature = "proto-ipv6")]
            {
                IpRepr::Ipv6(Ipv6Repr { src_addr: Ipv6Address::LOCALHOST, dst_addr: Ipv6Address::LOCALHOST, next_header: IpProtocol::from(nh), payload_len: 0, hop_limit: 64 })
            }
            #[cfg(not(feature = "proto-ipv6"))]
            {
                unreachable!()
            }
        };
        let acc = s.accepts(&ip);
        let ver_ok = match ver {
            None => true,
            Some(IpVersion::Ipv4) => v4,
            #[allow(unreachable_patterns)]
            Some(_) => !v4,
        };
        let proto_ok = match proto {
            None => true,
            Some(p) => u8::from(p) == nh,
        };
        assert!(acc == (ver_ok && proto_ok), "prop:c09_raw_accepts_iff_version_and_protocol_match");
        kani::cover!(acc && ver.is_some() && proto.is_some(), "bound version and protocol match");
        kani::cover!(!acc && ver_ok, "right version, other protocol");
        kani::cover!(!acc && proto_ok && proto.is_some(), "right protocol, other version");
    }

    // documented on `send`: "If the buffer is filled in a way that does not match the socket's IP version or
    // protocol, the packet will be silently dropped."
    // @harness props=C09 cfg=KG tier=q to=600 mem=4 unwind=6 opts=nomem covers=1 funcs=raw::Socket::send_slice;raw::Socket::dispatch bounds=socket_bound_to_IPv6;_one_well-formed_IPv4_packet_of_20..=24_bytes
    #[kani::proof]
    pub(crate) fn raw_version_filter() {
        #[cfg(feature = "proto-ipv6")]
        raw_version_filter_body();
    }
    #[cfg(feature = "proto-ipv6")]
    fn raw_version_filter_body() {
        env!(dev, iface, cx);
        sock!(s, Some(IpVersion::Ipv6), None, 1, 0, 1, BL);
        let mut m = any_packet();
        kani::assume(m.good());
        let bytes = m.bytes(kani::any());
        assert!(s.send_slice(&bytes[..m.size]).is_ok(), "prop:c09_raw_empty_tx_accepts_up_to_capacity");
        let mut seen = false;
        let r = s.dispatch(cx, |_cx, _p| {
            seen = true;
            Ok::<(), ()>(())
        });
        kani::cover!(m.size == BL, "IPv4 packet with 4 payload bytes queued on an IPv6-bound socket");
        assert!(!seen, "prop:c09_raw_packet_of_other_ip_version_dropped_as_documented");
        assert!(s.poll_at(cx) == PollAt::Ingress, "prop:c13_raw_poll_at_ingress_when_nothing_queued");
    }

    // an empty datagram is accepted by `send`; `dispatch` (i.e. `Interface::poll`) must drop it, not panic
    // @harness props=C09 cfg=KG tier=q to=600 mem=4 unwind=6 opts=nomem covers=1 funcs=raw::Socket::send;raw::Socket::dispatch;IpVersion::of_packet bounds=one_datagram_of_0_bytes
    #[kani::proof]
    pub(crate) fn raw_send_empty_datagram() {
        env!(dev, iface, cx);
        sock!(s, none_or_v4(), any_proto(), 1, 0, 1, BL);
        let sent = s.send(0).is_ok();
        kani::cover!(sent, "empty datagram accepted by send");
        let mut seen = false;
        let r = s.dispatch(cx, |_cx, _p| {
            seen = true;
            Ok::<(), ()>(())
        });
        assert!(r.is_ok() && !seen, "prop:c09_raw_tx_no_extra_datagram");
        assert!(s.poll_at(cx) == PollAt::Ingress, "prop:c13_raw_poll_at_ingress_when_nothing_queued");
    }

    // @harness props=C09 kind=mustfail cfg=KG tier=q to=600 mem=8 unwind=6 opts=nomem
    #[kani::proof]
    pub(crate) fn raw_must_fail() {
        tx_setup!(dev, iface, cx, s, g, proto);
        step_send(&mut s, &mut g, VIA_SLICE);
        step_send(&mut s, &mut g, VIA_SLICE);
        let head = g.q[0];
        let (o, r) = dispatch_recording(&mut s, cx, &head, false);
        // false: a failed emit does NOT remove the head
        g.pop();
        drain_tx(&mut s, cx, &g, &proto);
    }
}

// Configurations without IPv4 or without medium-ip (this file is spliced into every configuration of a
// run): the harnesses above are not run there; the replay dispatcher only needs their names.
#[cfg(not(all(feature = "proto-ipv4", feature = "medium-ip")))]
#[allow(dead_code)]
mod v_socket_raw {
    macro_rules! stubs {
        ($($n:ident)*) => { $(pub(crate) fn $n() {})* };
    }
    stubs!(raw_send raw_send_with raw_dispatch raw_poll_at raw_process_recv raw_recv_truncated raw_peek raw_accepts raw_version_filter raw_send_empty_datagram raw_must_fail);
}
