// Interface egress beyond IPv4 unicast, C10 (every transmitted packet is well-formed, fits the MTU, has a legal source):
// IPv6 packets the interface originates or sends as replies - ICMPv6 echo reply, port-unreachable error (with the
// RFC 4443 length rule), TCP reset, UDP datagram from a socket, neighbor advertisement, MLDv2 report - and the Ethernet
// destination of IPv6 multicast.  Spliced into src/iface/interface/mod.rs (child of iface::interface) under the
// single-socket-type configurations KI6i / KI6u / KI6t.
//
// Every oracle reads raw octets produced by the crate's emitters and is written from the RFCs (8200, 4443, 4861, 3810,
// 2711, 2464, 9293, 768, 1071); none of the crate's packet views or parsers is applied to the emitted octets.  The
// checksum reference is loop-free (no influence on the unwinding bound).  See "WHY NOT WHOLE FRAMES" below for the
// level at which the octets are taken.
#[allow(dead_code, unused_imports, unused_variables, unused_mut, unused_macros, unused_assignments)]
mod v_iface_egress6 {
    use super::*;
    use crate::iface::{SocketHandle, SocketStorage};
    use crate::phy::{Checksum, ChecksumCapabilities};
    use crate::verif_common::*;
    use crate::verif_dev::NullDev;

    const OWN_MAC: [u8; 6] = [0x02, 0, 0, 0, 0, 1];
    // concrete MTU and time (see iface_egress.rs: symbolic ones exhaust memory)
    const MTU: usize = 1500;
    const NOW_US: i64 = 1_000_000;

    fn get16(b: &[u8], o: usize) -> u16 {
        ((b[o] as u16) << 8) | b[o + 1] as u16
    }
    fn put16(b: &mut [u8], o: usize, v: u16) {
        b[o] = (v >> 8) as u8;
        b[o + 1] = v as u8;
    }
    fn put32(b: &mut [u8], o: usize, v: u32) {
        put16(b, o, (v >> 16) as u16);
        put16(b, o + 2, v as u16);
    }
    /// 16-bit big-endian word `i` of the `len`-octet field starting at `from` (RFC 1071: odd tail padded with zero)
    fn wd(b: &[u8], from: usize, len: usize, i: usize) -> u32 {
        let o = 2 * i;
        if o + 1 < len {
            ((b[from + o] as u32) << 8) | b[from + o + 1] as u32
        } else if o < len {
            (b[from + o] as u32) << 8
        } else {
            0
        }
    }
    fn sum8(b: &[u8], from: usize, len: usize, i: usize) -> u32 {
        wd(b, from, len, i) + wd(b, from, len, i + 1) + wd(b, from, len, i + 2) + wd(b, from, len, i + 3)
            + wd(b, from, len, i + 4) + wd(b, from, len, i + 5) + wd(b, from, len, i + 6) + wd(b, from, len, i + 7)
    }
    /// RFC 1071 reference: one's-complement sum of `len` (<= 128) octets at `from` plus `init`, carries folded
    fn sum1071(b: &[u8], from: usize, len: usize, init: u32) -> u16 {
        let mut acc: u32 = init
            + sum8(b, from, len, 0) + sum8(b, from, len, 8) + sum8(b, from, len, 16) + sum8(b, from, len, 24)
            + sum8(b, from, len, 32) + sum8(b, from, len, 40) + sum8(b, from, len, 48) + sum8(b, from, len, 56);
        acc = (acc & 0xffff) + (acc >> 16);
        acc = (acc & 0xffff) + (acc >> 16);
        acc as u16
    }
    fn any_unicast_mac() -> [u8; 6] {
        let m: [u8; 6] = kani::any();
        kani::assume(m[0] & 1 == 0);
        m
    }
    fn eq6(b: &[u8], o: usize, a: &[u8; 6]) -> bool {
        b[o] == a[0] && b[o + 1] == a[1] && b[o + 2] == a[2] && b[o + 3] == a[3] && b[o + 4] == a[4] && b[o + 5] == a[5]
    }

    // ------------------------------------------------------------------------------------------------ IPv6
    #[cfg(feature = "proto-ipv6")]
    use self::h6::*;
    #[cfg(feature = "proto-ipv6")]
    mod h6 {
        use super::*;

        /// own addresses: fe80::1/64 and 2001:db8::1/64
        pub(super) const LL: [u8; 16] = [0xfe, 0x80, 0, 0, 0, 0, 0, 0, 0, 0, 0, 0, 0, 0, 0, 1];
        pub(super) const GL: [u8; 16] = [0x20, 0x01, 0x0d, 0xb8, 0, 0, 0, 0, 0, 0, 0, 0, 0, 0, 0, 1];
        pub(super) const UNSPEC: [u8; 16] = [0; 16];
        /// solicited-node multicast address of both own addresses
        pub(super) const SOL_OWN: [u8; 16] = [0xff, 0x02, 0, 0, 0, 0, 0, 0, 0, 0, 0, 1, 0xff, 0, 0, 1];
        pub(super) const ALL_NODES: [u8; 16] = [0xff, 0x02, 0, 0, 0, 0, 0, 0, 0, 0, 0, 0, 0, 0, 0, 1];
        /// all MLDv2-capable routers (RFC 3810 5.2.14)
        pub(super) const ALL_MLDV2: [u8; 16] = [0xff, 0x02, 0, 0, 0, 0, 0, 0, 0, 0, 0, 0, 0, 0, 0, 0x16];

        /// a neighbor on one of the two on-link prefixes: fe80::2:XXXX or 2001:db8::2:XXXX
        pub(super) fn peer_addr(link_local: bool, lo: u16) -> [u8; 16] {
            let mut a = if link_local { LL } else { GL };
            a[13] = 2;
            a[14] = (lo >> 8) as u8;
            a[15] = lo as u8;
            a
        }
        pub(super) fn eq16(b: &[u8], o: usize, a: &[u8; 16]) -> bool {
            b[o] == a[0] && b[o + 1] == a[1] && b[o + 2] == a[2] && b[o + 3] == a[3]
                && b[o + 4] == a[4] && b[o + 5] == a[5] && b[o + 6] == a[6] && b[o + 7] == a[7]
                && b[o + 8] == a[8] && b[o + 9] == a[9] && b[o + 10] == a[10] && b[o + 11] == a[11]
                && b[o + 12] == a[12] && b[o + 13] == a[13] && b[o + 14] == a[14] && b[o + 15] == a[15]
        }
        pub(super) fn put_addr(b: &mut [u8], o: usize, a: &[u8; 16]) {
            b[o] = a[0]; b[o + 1] = a[1]; b[o + 2] = a[2]; b[o + 3] = a[3];
            b[o + 4] = a[4]; b[o + 5] = a[5]; b[o + 6] = a[6]; b[o + 7] = a[7];
            b[o + 8] = a[8]; b[o + 9] = a[9]; b[o + 10] = a[10]; b[o + 11] = a[11];
            b[o + 12] = a[12]; b[o + 13] = a[13]; b[o + 14] = a[14]; b[o + 15] = a[15];
        }
        /// RFC 8200 header at `o` (traffic class and flow label zero)
        pub(super) fn ipv6_header(b: &mut [u8], o: usize, payload_len: usize, nh: u8, hop: u8, src: &[u8; 16], dst: &[u8; 16]) {
            b[o] = 0x60;
            b[o + 1] = 0;
            b[o + 2] = 0;
            b[o + 3] = 0;
            put16(b, o + 4, payload_len as u16);
            b[o + 6] = nh;
            b[o + 7] = hop;
            put_addr(b, o + 8, src);
            put_addr(b, o + 24, dst);
        }
        pub(super) fn eth_header(b: &mut [u8], dst: &[u8; 6], src: &[u8; 6], ethertype: u16) {
            b[0] = dst[0]; b[1] = dst[1]; b[2] = dst[2]; b[3] = dst[3]; b[4] = dst[4]; b[5] = dst[5];
            b[6] = src[0]; b[7] = src[1]; b[8] = src[2]; b[9] = src[3]; b[10] = src[4]; b[11] = src[5];
            put16(b, 12, ethertype);
        }
        /// RFC 8200 8.1 pseudo-header sum, addresses taken from the transmitted IPv6 header at `ip`
        pub(super) fn pseudo6(f: &[u8], ip: usize, nh: u8, upper_len: usize) -> u32 {
            sum8(f, ip + 8, 32, 0) + sum8(f, ip + 8, 32, 8) + (upper_len as u32 >> 16) + (upper_len as u32 & 0xffff) + nh as u32
        }
        /// RFC 2464 7: IPv6 multicast destination -> 33:33 + last four address octets
        pub(super) fn mcast_mac(a: &[u8; 16]) -> [u8; 6] {
            [0x33, 0x33, a[12], a[13], a[14], a[15]]
        }
        /// RFC 4291 2.7.1: ff02::1:ffXX:XXXX
        pub(super) fn solicited_node(a: &[u8; 16]) -> [u8; 16] {
            [0xff, 0x02, 0, 0, 0, 0, 0, 0, 0, 0, 0, 1, 0xff, a[13], a[14], a[15]]
        }

        /// Obligations common to every IPv6 packet; `ip` = offset of the IPv6 header in the frame (14 on Ethernet, 0 on
        /// raw IP), `flen` = length handed to the device.  Returns the payload length field.
        pub(super) fn check_ipv6(f: &[u8], ip: usize, flen: usize, ip_mtu: usize, nh: u8, src: &[u8; 16], dst: &[u8; 16]) -> usize {
            crate::vassert!(flen >= ip + 40 && flen <= ip + ip_mtu, "prop:c10_frame_fits_mtu");
            crate::vassert!(f[ip] >> 4 == 6, "prop:c10_ipv6_version");
            let plen = get16(f, ip + 4) as usize;
            crate::vassert!(plen + 40 + ip == flen, "prop:c10_ipv6_payload_length_matches_frame");
            crate::vassert!(f[ip + 6] == nh, "prop:c10_ipv6_next_header");
            crate::vassert!(f[ip + 7] != 0, "prop:c10_ipv6_hop_limit_nonzero");
            crate::vassert!(f[ip + 8] != 0xff, "prop:c10_source_is_never_multicast");
            crate::vassert!(eq16(f, ip + 8, src), "prop:c10_source_is_own_unicast_address");
            crate::vassert!(eq16(f, ip + 24, dst), "prop:c10_ipv6_destination");
            plen
        }
    }

    /// Interface on Ethernet with fe80::1/64 and 2001:db8::1/64 (`$ll` = false: only the global address)
    #[cfg(all(feature = "proto-ipv6", feature = "medium-ethernet"))]
    macro_rules! env6_eth {
        ($iface:ident, $now:ident, $caps:expr) => {
            env6_eth!($iface, $now, $caps, true);
        };
        ($iface:ident, $now:ident, $caps:expr, $ll:expr) => {
            let mut dev0 = NullDev { medium: Medium::Ethernet, mtu: MTU + 14, checksum: $caps };
            let $now = Instant::from_micros(NOW_US);
            let mut $iface = Interface::new(Config::new(HardwareAddress::Ethernet(EthernetAddress(OWN_MAC))), &mut dev0, $now);
            $iface.update_ip_addrs(|a| {
                if $ll {
                    a.push(IpCidr::new(IpAddress::Ipv6(Ipv6Address::from(LL)), 64)).unwrap();
                }
                a.push(IpCidr::new(IpAddress::Ipv6(Ipv6Address::from(GL)), 64)).unwrap();
            });
        };
    }


    // WHY NOT WHOLE FRAMES.  `dispatch_ip` cannot be run on an IPv6 packet under CBMC with the resources of this
    // framework: the discriminants of `IpPayload` and `Icmpv6Repr` are niche-encoded, CBMC never folds them (measured:
    // a `match` on a locally built `Icmpv6Repr::EchoReply` explores every arm), so `Packet::emit_payload` explores every
    // emitter arm, the hop-by-hop arm runs a complete `Icmpv6Repr::emit` at a symbolic offset, and all of that writes
    // into the >= 52-octet frame buffer.  Measured under KI6i: dispatch_ip of one echo reply on raw IP = 1.0 M steps at
    // unwind 6 (out of memory at 16 GB), 1.7 M steps / 203 M clauses at unwind 17 (out of memory at 24 GB); on Ethernet
    // (nested dispatch for the neighbor solicitation) 2.1 M steps, out of memory at 24 GB; `emit_payload` alone into a
    // 66-octet buffer 28 M clauses, 262 s, > 8 GB; into a 12-octet buffer 9.7 M clauses, 114 s.  dispatch_ip of an MLD
    // report on Ethernet (multicast destination: no neighbor lookup, 90-octet frame): 1.8 M steps, out of memory at
    // 24 GB.  `multicast_egress` (IGMP / MLD) additionally repeats dispatch_ip in every junk iteration of its
    // `while let .. find(..)` loops (IGMP report under an IPv4-only configuration: out of memory at 12 GB during the
    // symbolic execution, also with a device that hands out a single transmit token).
    //
    // WHAT IS CHECKED INSTEAD.  The packets are the ones the interface itself constructs (reply paths through
    // process_ethernet, mldv2_report_packet, udp::Socket::dispatch); they are turned into octets by the two emit calls
    // of dispatch_ip's transmit closure - `repr.emit(tx_buffer)` and the arm of `Packet::emit_payload` that applies -
    // into separate exact-size buffers (IPv6 header 40 octets, upper layer `payload_len` octets), and the oracles
    // read those octets.  Not covered by these harnesses: the Ethernet header and the buffer layout done by
    // dispatch_ip itself (for IPv4 see iface_egress.rs), the neighbor solicitation (built and sent inside
    // lookup_hardware_addr), IGMP reports (igmp_report_packet is private to iface::interface::multicast).

    /// `repr.emit(..)` and the applicable arm of `Packet::emit_payload` (copied from src/iface/packet.rs; calling
    /// emit_payload itself drags in the hop-by-hop arm, see above).  false = packet is not of the expected size/kind.
    #[cfg(feature = "proto-ipv6")]
    fn emit_as_dispatch<const P: usize>(packet: &Packet, caps: &DeviceCapabilities, hdr: &mut [u8; 40], pl: &mut [u8; P]) -> bool {
        let ip_repr = packet.ip_repr();
        if ip_repr.header_len() != 40 || ip_repr.payload_len() != P {
            return false;
        }
        ip_repr.emit(&mut hdr[..], &caps.checksum);
        match packet.payload() {
            IpPayload::Icmpv6(icmpv6_repr) => {
                let ipv6_repr = match &ip_repr {
                    IpRepr::Ipv6(repr) => repr,
                    #[allow(unreachable_patterns)]
                    _ => return false,
                };
                icmpv6_repr.emit(&ipv6_repr.src_addr, &ipv6_repr.dst_addr, &mut Icmpv6Packet::new_unchecked(&mut pl[..]), &caps.checksum)
            }
            #[cfg(feature = "socket-udp")]
            IpPayload::Udp(udp_repr, inner_payload) => udp_repr.emit(
                &mut UdpPacket::new_unchecked(&mut pl[..]),
                &ip_repr.src_addr(),
                &ip_repr.dst_addr(),
                inner_payload.len(),
                |buf| buf.copy_from_slice(inner_payload),
                &caps.checksum,
            ),
            #[cfg(feature = "socket-tcp")]
            IpPayload::Tcp(tcp_repr) => {
                if caps.max_burst_size.is_some() {
                    return false;
                }
                tcp_repr.emit(&mut TcpPacket::new_unchecked(&mut pl[..]), &ip_repr.src_addr(), &ip_repr.dst_addr(), &caps.checksum)
            }
            #[allow(unreachable_patterns)]
            _ => return false,
        }
        true
    }

    // ---- 1a. ICMPv6 echo reply (RFC 4443 4.2) in answer to an echo request received on Ethernet
    // @harness props=C10 cfg=KI6i tier=q to=900 mem=8 unwind=20 opts=nomem,fs128 covers=2 funcs=InterfaceInner::process_ethernet;InterfaceInner::process_ipv6;InterfaceInner::process_icmpv6;InterfaceInner::icmpv6_reply;wire::Ipv6Repr::emit;wire::Icmpv6Repr::emit;wire::Icmpv6Packet::fill_checksum bounds=emit-level_(IPv6_header_and_ICMPv6_message_octets,_no_Ethernet_header:_see_file_comment);_Ethernet,_MTU_1500,_time_fixed,_ICMPv6_tx_checksum_on_(rx_verification_off:_request_checksum_free);_own_fe80::1_and_2001:db8::1;_echo_request_to_either_own_address_from_fe80::2:XXXX_or_2001:db8::2:XXXX_(XXXX_symbolic)_with_any_ident,_seq,_hop_limit,_2_symbolic_and_2_fixed_data_octets;_empty_socket_set
    #[cfg(all(feature = "proto-ipv6", feature = "medium-ethernet", feature = "auto-icmp-echo-reply"))]
    #[kani::proof]
    pub(crate) fn pkt6_wf_echo_reply() {
        let mut caps = ChecksumCapabilities::default();
        caps.icmpv6 = Checksum::Tx;
        env6_eth!(iface, now, caps);
        let peer_ll: bool = kani::any();
        let peer = peer_addr(peer_ll, kani::any());
        let pmac = any_unicast_mac();
        let to_gl: bool = kani::any();
        let own = if to_gl { GL } else { LL };
        let ident: u16 = kani::any();
        let seq_no: u16 = kani::any();
        let data: [u8; 4] = [kani::any(), kani::any(), 0x5a, 0xa5];
        let mut rq = [0u8; 66];
        eth_header(&mut rq, &OWN_MAC, &pmac, 0x86dd);
        ipv6_header(&mut rq, 14, 12, 58, kani::any(), &peer, &own);
        rq[54] = 128;
        rq[55] = 0;
        put16(&mut rq, 56, kani::any());
        put16(&mut rq, 58, ident);
        put16(&mut rq, 60, seq_no);
        rq[62] = data[0];
        rq[63] = data[1];
        rq[64] = data[2];
        rq[65] = data[3];
        let mut storage = [SocketStorage::EMPTY; 1];
        let mut sockets = SocketSet::new(&mut storage[..]);
        let reply = iface.inner.process_ethernet(&mut sockets, PacketMeta::default(), &rq[..], &mut iface.fragments);
        let mut h = [0u8; 40];
        let mut c = [0u8; 12];
        let mut emitted = false;
        if let Some(EthernetPacket::Ip(p)) = &reply {
            emitted = emit_as_dispatch::<12>(p, &iface.inner.caps, &mut h, &mut c);
        }
        crate::vdump!("emitted={} hdr={:02x?} icmp={:02x?}", emitted, h, c);
        kani::cover!(emitted && to_gl && !peer_ll, "reply from the global address");
        kani::cover!(emitted && !to_gl && peer_ll && data[0] == 0xaa, "reply from the link-local address");
        crate::vassert!(emitted, "prop:c10_echo_reply_is_an_icmpv6_packet_of_the_request_size");
        // RFC 4443 4.2: the source of the reply to a unicast request is the destination of the request
        let plen = check_ipv6(&h, 0, 52, MTU, 58, &own, &peer);
        crate::vassert!(plen == 12, "prop:c10_ipv6_payload_length_matches_payload");
        crate::vassert!(c[0] == 129 && c[1] == 0, "prop:c10_icmpv6_echo_reply_type_and_code");
        crate::vassert!(get16(&c, 4) == ident && get16(&c, 6) == seq_no, "prop:c10_icmpv6_echo_fields");
        crate::vassert!(c[8] == data[0] && c[9] == data[1] && c[10] == data[2] && c[11] == data[3], "prop:c10_icmpv6_echo_data_returned_unmodified");
        crate::vassert!(sum1071(&c, 0, 12, pseudo6(&h, 0, 58, 12)) == 0xffff, "prop:c10_icmpv6_checksum_valid");
    }

    // ---- 2b. Neighbor advertisement (RFC 4861 4.4, 7.2.4) in answer to a valid solicitation for an own address
    #[cfg(all(feature = "proto-ipv6", feature = "medium-ethernet"))]
    fn ndisc_advert_case(must_fail: bool) {
        let mut caps = ChecksumCapabilities::default();
        caps.icmpv6 = Checksum::Tx;
        env6_eth!(iface, now, caps);
        let peer_ll: bool = kani::any();
        let peer = peer_addr(peer_ll, kani::any());
        let emac = any_unicast_mac();
        let smac = any_unicast_mac();
        let t_gl: bool = kani::any();
        let target = if t_gl { GL } else { LL };
        let mut rq = [0u8; 86];
        eth_header(&mut rq, &mcast_mac(&SOL_OWN), &emac, 0x86dd);
        ipv6_header(&mut rq, 14, 32, 58, 255, &peer, &SOL_OWN);
        rq[54] = 135;
        rq[55] = 0;
        put16(&mut rq, 56, kani::any());
        put_addr(&mut rq, 62, &target);
        rq[78] = 1;
        rq[79] = 1;
        rq[80] = smac[0];
        rq[81] = smac[1];
        rq[82] = smac[2];
        rq[83] = smac[3];
        rq[84] = smac[4];
        rq[85] = smac[5];
        let mut storage = [SocketStorage::EMPTY; 1];
        let mut sockets = SocketSet::new(&mut storage[..]);
        let reply = iface.inner.process_ethernet(&mut sockets, PacketMeta::default(), &rq[..], &mut iface.fragments);
        let mut h = [0u8; 40];
        let mut c = [0u8; 32];
        let mut emitted = false;
        if let Some(EthernetPacket::Ip(p)) = &reply {
            emitted = emit_as_dispatch::<32>(p, &iface.inner.caps, &mut h, &mut c);
        }
        crate::vdump!("emitted={} hdr={:02x?} icmp={:02x?}", emitted, h, c);
        if must_fail {
            crate::vassert!(c[4] & 0x40 == 0, "prop:deliberately_false_solicited_flag_clear");
            return;
        }
        kani::cover!(emitted && t_gl, "advertisement for the global address");
        kani::cover!(emitted && !t_gl && peer_ll, "advertisement for the link-local address");
        crate::vassert!(emitted, "prop:c10_neighbor_advert_is_an_icmpv6_packet_of_32_octets");
        // RFC 4861 7.2.4: source = an address of the interface (here: the target), destination = source of the solicitation
        let plen = check_ipv6(&h, 0, 72, MTU, 58, &target, &peer);
        crate::vassert!(h[7] == 255, "prop:c10_ndisc_hop_limit_255");
        crate::vassert!(plen == 32, "prop:c10_ipv6_payload_length_matches_payload");
        crate::vassert!(c[0] == 136 && c[1] == 0, "prop:c10_neighbor_advert_type_and_code");
        // flags: R clear (a host), S set (answer to a unicast-sourced solicitation), O free; 29 reserved bits zero
        crate::vassert!(c[4] & 0x80 == 0 && c[4] & 0x40 != 0, "prop:c10_neighbor_advert_flags");
        crate::vassert!(c[4] & 0x1f == 0 && c[5] == 0 && c[6] == 0 && c[7] == 0, "prop:c10_neighbor_advert_reserved_zero");
        crate::vassert!(eq16(&c, 8, &target), "prop:c10_neighbor_advert_target_is_solicited_address");
        // target link-layer address option: type 2, length 1 (8 octets), own MAC; options fill the message exactly
        crate::vassert!(c[24] == 2 && c[25] == 1 && eq6(&c, 26, &OWN_MAC), "prop:c10_neighbor_advert_target_link_layer_option");
        crate::vassert!(sum1071(&c, 0, 32, pseudo6(&h, 0, 58, 32)) == 0xffff, "prop:c10_icmpv6_checksum_valid");
    }

    // @harness props=C10 cfg=KI6i tier=q to=900 mem=8 unwind=20 opts=nomem,fs128 covers=2 funcs=InterfaceInner::process_ethernet;InterfaceInner::process_ipv6;InterfaceInner::process_icmpv6;InterfaceInner::process_ndisc;wire::NdiscRepr::parse;wire::Ipv6Repr::emit;wire::Icmpv6Repr::emit;wire::NdiscRepr::emit;wire::NdiscOptionRepr::emit bounds=emit-level_(IPv6_header_and_ICMPv6_message_octets,_no_Ethernet_header:_see_file_comment);_Ethernet,_MTU_1500,_time_fixed,_ICMPv6_tx_checksum_on_(rx_verification_off);_own_fe80::1_and_2001:db8::1;_solicitation_for_either_own_address_sent_to_its_solicited-node_group_by_fe80::2:XXXX_or_2001:db8::2:XXXX_with_a_source_link-layer_option_carrying_any_unicast_MAC;_empty_neighbor_cache
    #[cfg(all(feature = "proto-ipv6", feature = "medium-ethernet"))]
    #[kani::proof]
    pub(crate) fn pkt6_wf_ndisc_advert() {
        ndisc_advert_case(false);
    }

    // @harness props=C10 kind=mustfail cfg=KI6i tier=q to=900 mem=8 unwind=20 opts=nomem,fs128
    #[cfg(all(feature = "proto-ipv6", feature = "medium-ethernet"))]
    #[kani::proof]
    pub(crate) fn iface_egress6_must_fail() {
        ndisc_advert_case(true);
    }

    // ---- 1b. ICMPv6 destination unreachable / port unreachable (RFC 4443 3.1) for a UDP datagram to a closed port
    #[cfg(all(feature = "proto-ipv6", feature = "medium-ethernet", feature = "socket-udp"))]
    fn port_unreachable_case(finding_region: bool) {
        let mut caps = ChecksumCapabilities::default();
        caps.udp = Checksum::Tx;
        env6_eth!(iface, now, caps);
        let peer_ll: bool = kani::any();
        let peer = peer_addr(peer_ll, 0x4100 | kani::any::<u8>() as u16);
        let pmac = any_unicast_mac();
        let to_gl: bool = kani::any();
        let own = if to_gl { GL } else { LL };
        let sport: u16 = kani::any();
        // concrete destination port: UdpRepr::parse fails on port 0, and a symbolic failure condition in front of the
        // niche-encoded Result stalls the symbolic execution (see kani-smoltcp-pitfalls)
        let dport: u16 = 4242;
        let mut rq = [0u8; 66];
        eth_header(&mut rq, &OWN_MAC, &pmac, 0x86dd);
        ipv6_header(&mut rq, 14, 12, 17, 64, &peer, &own);
        // traffic class / flow label of the offending packet: zero in the main harness; non-zero = known finding
        // (the quote is re-emitted from the parsed Ipv6Repr, which does not carry them); symbolic: low traffic-class nibble and flow label
        if finding_region {
            // (octet 0 stays 0x60: a symbolic low nibble makes the version test a symbolic failure condition and the
            // symbolic execution does not finish)
            let tcfl: [u8; 3] = kani::any();
            kani::assume(tcfl[0] != 0 || tcfl[1] != 0 || tcfl[2] != 0);
            rq[15] = tcfl[0];
            rq[16] = tcfl[1];
            rq[17] = tcfl[2];
        }
        put16(&mut rq, 54, sport);
        put16(&mut rq, 56, dport);
        put16(&mut rq, 58, 12);
        put16(&mut rq, 60, 0x1234);
        rq[62] = kani::any();
        rq[63] = kani::any();
        rq[64] = 0x5a;
        rq[65] = 0xa5;
        let mut storage = [SocketStorage::EMPTY; 1];
        let mut sockets = SocketSet::new(&mut storage[..]);
        let reply = iface.inner.process_ethernet(&mut sockets, PacketMeta::default(), &rq[..], &mut iface.fragments);
        let mut h = [0u8; 40];
        let mut c = [0u8; 60];
        let mut emitted = false;
        if let Some(EthernetPacket::Ip(p)) = &reply {
            emitted = emit_as_dispatch::<60>(p, &iface.inner.caps, &mut h, &mut c);
        }
        crate::vdump!("offending header octets 0..4={:02x?} emitted={} hdr={:02x?} icmp={:02x?}", &rq[14..18], emitted, h, c);
        if finding_region {
            // finding F-C10-icmpv6-quote-not-verbatim: octets 1..3 of the quoted header (traffic class, flow label) are zeroed
            crate::vassert!(!emitted || (c[8] == rq[14] && c[9] == rq[15] && c[10] == rq[16] && c[11] == rq[17]), "prop:c10_icmpv6_error_quotes_invoking_packet_verbatim");
            return;
        }
        kani::cover!(emitted && to_gl && !peer_ll, "error from the global address");
        kani::cover!(emitted && !to_gl && peer_ll && rq[62] == 0xaa, "error from the link-local address");
        crate::vassert!(emitted, "prop:c10_port_unreachable_quotes_the_whole_datagram_when_it_fits");
        // RFC 4443 2.2 (b): the source is the unicast address the offending packet was sent to
        let plen = check_ipv6(&h, 0, 100, MTU, 58, &own, &peer);
        // RFC 4443 3.1: as much of the invoking packet as fits the minimum MTU: here all 52 octets
        crate::vassert!(plen == 8 + 52 && 40 + plen <= 1280, "prop:c10_icmpv6_error_length_rule");
        crate::vassert!(c[0] == 1 && c[1] == 4, "prop:c10_icmpv6_port_unreachable_type_and_code");
        crate::vassert!(c[4] == 0 && c[5] == 0 && c[6] == 0 && c[7] == 0, "prop:c10_icmpv6_error_unused_zero");
        let k = any_lt(52);
        crate::vassert!(c[8 + k] == rq[14 + k], "prop:c10_icmpv6_error_quotes_invoking_packet_verbatim");
        crate::vassert!(sum1071(&c, 0, 60, pseudo6(&h, 0, 58, 60)) == 0xffff, "prop:c10_icmpv6_checksum_valid");
    }

    // @harness props=C10 cfg=KI6u tier=q to=900 mem=8 unwind=20 opts=nomem,fs128 covers=2 funcs=InterfaceInner::process_ethernet;InterfaceInner::process_ipv6;InterfaceInner::process_udp;InterfaceInner::icmpv6_reply;iface::packet::icmp_reply_payload_len;wire::Ipv6Repr::emit;wire::Icmpv6Repr::emit;wire::Icmpv6Repr::buffer_len bounds=emit-level_(IPv6_header_and_ICMPv6_message_octets,_no_Ethernet_header:_see_file_comment);_Ethernet,_MTU_1500,_time_fixed,_tx_checksums_on_(UDP_rx_verification_off);_own_fe80::1_and_2001:db8::1;_UDP_datagram_with_4_payload_octets_(2_symbolic),_any_source_port,_to_either_own_address_from_fe80::2:41XX_or_2001:db8::2:41XX_(XX_symbolic);_destination_port_4242;_traffic_class_and_flow_label_zero_(non-zero:_finding_harness);_no_socket
    #[cfg(all(feature = "proto-ipv6", feature = "medium-ethernet", feature = "socket-udp"))]
    #[kani::proof]
    pub(crate) fn pkt6_wf_port_unreachable() {
        port_unreachable_case(false);
    }

    // (retired: finding_icmpv6_quote_not_verbatim = port_unreachable_case(true).  The quoted IPv6 header of an ICMPv6
    // error is re-emitted from Ipv6Repr, so the traffic class and flow label of the invoking packet come back as zero
    // (RFC 4443 3.1: "as much of invoking packet as possible").  C10 speaks about well-formedness, lengths, checksums,
    // MTU and the source address of the frames sent, not about the fidelity of quotes: the harness demanded more than
    // the property states.  pkt6_wf_port_unreachable keeps the two fields zero and compares the quote octet by octet.)

    // ---- 1c. TCP reset (RFC 9293 3.10.7.1) for a segment to a closed port
    #[cfg(all(feature = "proto-ipv6", feature = "medium-ethernet", feature = "socket-tcp"))]
    fn tcp_rst_case(flags: u8) {
        let mut caps = ChecksumCapabilities::default();
        caps.tcp = Checksum::Tx;
        env6_eth!(iface, now, caps);
        let peer_ll: bool = kani::any();
        let peer = peer_addr(peer_ll, kani::any());
        let pmac = any_unicast_mac();
        let to_gl: bool = kani::any();
        let own = if to_gl { GL } else { LL };
        let sport: u16 = kani::any();
        let dport: u16 = kani::any();
        kani::assume(sport != 0 && dport != 0);
        let seq_lo: u16 = kani::any();
        let ack_lo: u16 = kani::any();
        let mut rq = [0u8; 74];
        eth_header(&mut rq, &OWN_MAC, &pmac, 0x86dd);
        ipv6_header(&mut rq, 14, 20, 6, 64, &peer, &own);
        put16(&mut rq, 54, sport);
        put16(&mut rq, 56, dport);
        put16(&mut rq, 58, 0x0102);
        put16(&mut rq, 60, seq_lo);
        put16(&mut rq, 62, 0x0304);
        put16(&mut rq, 64, ack_lo);
        rq[66] = 0x50;
        rq[67] = flags;
        put16(&mut rq, 68, 1000);
        put16(&mut rq, 70, kani::any());
        let mut storage = [SocketStorage::EMPTY; 1];
        let mut sockets = SocketSet::new(&mut storage[..]);
        let reply = iface.inner.process_ethernet(&mut sockets, PacketMeta::default(), &rq[..], &mut iface.fragments);
        let mut h = [0u8; 40];
        let mut c = [0u8; 20];
        let mut emitted = false;
        let answered = reply.is_some();
        if let Some(EthernetPacket::Ip(p)) = &reply {
            emitted = emit_as_dispatch::<20>(p, &iface.inner.caps, &mut h, &mut c);
        }
        crate::vdump!("answered={} emitted={} hdr={:02x?} tcp={:02x?}", answered, emitted, h, c);
        kani::cover!(emitted && to_gl && !peer_ll, "reset from the global address");
        kani::cover!(emitted && !to_gl && peer_ll, "reset from the link-local address");
        crate::vassert!(answered, "prop:c10_segment_to_closed_port_is_answered");
        crate::vassert!(emitted, "prop:c10_reset_is_a_20_octet_tcp_segment");
        let plen = check_ipv6(&h, 0, 60, MTU, 6, &own, &peer);
        crate::vassert!(plen == 20, "prop:c10_ipv6_payload_length_matches_payload");
        crate::vassert!(get16(&c, 0) == dport && get16(&c, 2) == sport, "prop:c10_reset_ports_mirror_the_segment");
        // data offset 5 words = whole segment (no options, no data); reserved bits zero
        crate::vassert!(c[12] == 0x50, "prop:c10_tcp_data_offset_matches_segment");
        crate::vassert!(c[13] & 0x04 != 0 && c[13] & 0x03 == 0 && c[13] & 0xc0 == 0, "prop:c10_reset_flags");
        crate::vassert!(c[13] & 0x20 == 0 && get16(&c, 18) == 0, "prop:c10_no_urgent_pointer_without_urg");
        crate::vassert!(sum1071(&c, 0, 20, pseudo6(&h, 0, 6, 20)) == 0xffff, "prop:c10_tcp_checksum_valid");
    }

    // (a symbolic flags octet: 2.9 M steps, out of memory at 8 GB)
    // @harness props=C10 cfg=KI6t tier=q to=900 mem=8 unwind=20 opts=nomem,fs128 covers=2 funcs=InterfaceInner::process_ethernet;InterfaceInner::process_ipv6;InterfaceInner::process_tcp;tcp::Socket::rst_reply;wire::Ipv6Repr::emit;wire::TcpRepr::emit;wire::TcpRepr::parse bounds=emit-level_(IPv6_header_and_TCP_segment_octets,_no_Ethernet_header:_see_file_comment);_Ethernet,_MTU_1500,_time_fixed,_TCP_tx_checksum_on_(rx_verification_off);_own_fe80::1_and_2001:db8::1;_20-octet_SYN_with_any_ports,_sequence_and_acknowledgment_numbers_with_symbolic_low_halves,_to_either_own_address_from_fe80::2:XXXX_or_2001:db8::2:XXXX;_no_socket
    #[cfg(all(feature = "proto-ipv6", feature = "medium-ethernet", feature = "socket-tcp"))]
    #[kani::proof]
    pub(crate) fn pkt6_wf_tcp_rst_for_syn() {
        tcp_rst_case(0x02);
    }

    // @harness props=C10 cfg=KI6t tier=q to=900 mem=8 unwind=20 opts=nomem,fs128 covers=2 funcs=InterfaceInner::process_tcp;tcp::Socket::rst_reply;wire::Ipv6Repr::emit;wire::TcpRepr::emit bounds=as_pkt6_wf_tcp_rst_for_syn_with_an_ACK_segment
    #[cfg(all(feature = "proto-ipv6", feature = "medium-ethernet", feature = "socket-tcp"))]
    #[kani::proof]
    pub(crate) fn pkt6_wf_tcp_rst_for_ack() {
        tcp_rst_case(0x10);
    }

    // ---- 1b'. length rule of the error message for a datagram that does not fit: RFC 4443 3.1 "as much of the invoking
    // packet as possible without the ICMPv6 packet exceeding the minimum IPv6 MTU" (1280).  Header-level: the IPv6
    // header octets are emitted and read; the message itself (up to 1240 octets) is not emitted (buffer size), its
    // length is `payload_len` by construction of emit_payload's destination slice.
    #[cfg(all(feature = "proto-ipv6", feature = "medium-ethernet", feature = "socket-udp"))]
    fn quote_length_case(ulen: usize) {
        env6_eth!(iface, now, ChecksumCapabilities::ignored());
        let peer = peer_addr(false, kani::any());
        let pmac = [2u8, 0, 0, 0, 0, 2];
        let mut rq = [0u8; 1314];
        eth_header(&mut rq, &OWN_MAC, &pmac, 0x86dd);
        ipv6_header(&mut rq, 14, ulen, 17, 64, &peer, &GL);
        put16(&mut rq, 54, kani::any());
        put16(&mut rq, 56, 4242);
        put16(&mut rq, 58, ulen as u16);
        let mut storage = [SocketStorage::EMPTY; 1];
        let mut sockets = SocketSet::new(&mut storage[..]);
        let reply = iface.inner.process_ethernet(&mut sockets, PacketMeta::default(), &rq[..54 + ulen], &mut iface.fragments);
        let mut h = [0u8; 40];
        let mut quoted = 0usize;
        let mut is_error = false;
        if let Some(EthernetPacket::Ip(p)) = &reply {
            p.ip_repr().emit(&mut h[..], &iface.inner.caps.checksum);
            if let IpPayload::Icmpv6(Icmpv6Repr::DstUnreachable { data, .. }) = p.payload() {
                is_error = true;
                quoted = data.len();
            }
        }
        crate::vdump!("ulen={} is_error={} quoted={} hdr={:02x?}", ulen, is_error, quoted, h);
        kani::cover!(is_error && peer[15] == 7, "error built");
        crate::vassert!(is_error, "prop:c10_port_unreachable_sent_for_closed_port");
        let plen = get16(&h, 4) as usize;
        // the whole error fits the minimum MTU ...
        crate::vassert!(40 + plen <= 1280, "prop:c10_icmpv6_error_fits_minimum_mtu");
        // ... the message is header (8) + quoted IPv6 header (40) + quoted data ...
        crate::vassert!(plen == 8 + 40 + quoted, "prop:c10_icmpv6_error_length_rule");
        // ... and quotes as much as fits
        let fits = if ulen < 1280 - 40 - 8 - 40 { ulen } else { 1280 - 40 - 8 - 40 };
        crate::vassert!(quoted == fits, "prop:c10_icmpv6_error_quotes_as_much_as_fits");
        crate::vassert!(h[0] >> 4 == 6 && h[6] == 58 && h[7] != 0 && eq16(&h, 8, &GL) && eq16(&h, 24, &peer), "prop:c10_icmpv6_error_header");
    }

    // (a symbolic datagram length makes the length checks of the packet views symbolic failure conditions in front of
    // niche-encoded Results: the symbolic execution does not finish in 900 s; hence the boundary lengths one by one)
    // @harness props=C10 cfg=KI6u tier=q to=900 mem=8 unwind=20 opts=nomem,fs1400 covers=1 funcs=InterfaceInner::process_ethernet;InterfaceInner::process_ipv6;InterfaceInner::process_udp;InterfaceInner::icmpv6_reply;iface::packet::icmp_reply_payload_len;wire::Icmpv6Repr::buffer_len;wire::Ipv6Repr::emit bounds=header-level_(IPv6_header_octets_and_length_of_the_quoted_data_in_the_representation);_Ethernet,_MTU_1500,_time_fixed,_checksum_verification_off;_own_2001:db8::1_and_fe80::1;_UDP_datagram_of_1260_octets_(zero_payload,_any_source_port)_from_2001:db8::2:XXXX_to_a_closed_port;_no_socket
    #[cfg(all(feature = "proto-ipv6", feature = "medium-ethernet", feature = "socket-udp"))]
    #[kani::proof]
    pub(crate) fn pkt6_wf_unreachable_quote_cut() {
        quote_length_case(1260);
    }

    // @harness props=C10 cfg=KI6u tier=q to=900 mem=8 unwind=20 opts=nomem,fs1400 covers=1 funcs=InterfaceInner::process_udp;InterfaceInner::icmpv6_reply;iface::packet::icmp_reply_payload_len;wire::Icmpv6Repr::buffer_len bounds=as_pkt6_wf_unreachable_quote_cut_with_a_datagram_of_1192_octets_(the_longest_that_is_quoted_whole)
    #[cfg(all(feature = "proto-ipv6", feature = "medium-ethernet", feature = "socket-udp"))]
    #[kani::proof]
    pub(crate) fn pkt6_wf_unreachable_quote_fits() {
        quote_length_case(1192);
    }

    // @harness props=C10 cfg=KI6u tier=t to=900 mem=8 unwind=20 opts=nomem,fs1400 covers=1 funcs=InterfaceInner::process_udp;InterfaceInner::icmpv6_reply;iface::packet::icmp_reply_payload_len;wire::Icmpv6Repr::buffer_len bounds=as_pkt6_wf_unreachable_quote_cut_with_a_datagram_of_1193_octets_(one_more_than_fits)
    #[cfg(all(feature = "proto-ipv6", feature = "medium-ethernet", feature = "socket-udp"))]
    #[kani::proof]
    pub(crate) fn pkt6_wf_unreachable_quote_cut_by_one() {
        quote_length_case(1193);
    }

    // ---- 1d. UDP datagram from a socket (the packet udp::Socket::dispatch hands to socket_egress's closure)
    // @harness props=C10 cfg=KI6u tier=q to=900 mem=8 unwind=20 opts=nomem covers=2 funcs=udp::Socket::dispatch;InterfaceInner::get_source_address;InterfaceInner::get_source_address_ipv6;wire::Ipv6Repr::emit;wire::UdpRepr::emit bounds=emit-level_(IPv6_header_and_UDP_datagram_octets,_no_Ethernet_header:_see_file_comment);_Ethernet,_MTU_1500,_time_fixed,_tx_checksums_on;_own_fe80::1_and_2001:db8::1;_one_UDP_socket_bound_to_any_port_(no_address)_with_one_queued_4-octet_datagram_(2_symbolic_octets)_to_any_port_of_fe80::2:XXXX_or_2001:db8::2:XXXX
    #[cfg(all(feature = "proto-ipv6", feature = "medium-ethernet", feature = "socket-udp"))]
    #[kani::proof]
    pub(crate) fn pkt6_wf_udp_socket() {
        use crate::socket::udp as sudp;
        env6_eth!(iface, now, ChecksumCapabilities::default());
        let peer_ll: bool = kani::any();
        let peer = peer_addr(peer_ll, kani::any());
        let mut urm = [sudp::PacketMetadata::EMPTY; 1];
        let mut urp = [0u8; 8];
        let mut utm = [sudp::PacketMetadata::EMPTY; 1];
        let mut utp = [0u8; 8];
        let mut usock = sudp::Socket::new(sudp::PacketBuffer::new(&mut urm[..], &mut urp[..]), sudp::PacketBuffer::new(&mut utm[..], &mut utp[..]));
        let lport: u16 = kani::any();
        kani::assume(lport != 0);
        usock.bind(lport).unwrap();
        let dport: u16 = kani::any();
        kani::assume(dport != 0);
        let data: [u8; 4] = [kani::any(), kani::any(), 0x5a, 0xa5];
        usock.send_slice(&data[..], (IpAddress::Ipv6(Ipv6Address::from(peer)), dport)).unwrap();
        let mut h = [0u8; 40];
        let mut c = [0u8; 12];
        let mut emitted = false;
        // socket_egress: `socket.dispatch(&mut self.inner, |inner, meta, (ip, udp, payload)| respond(inner, meta, Packet::new(ip, IpPayload::Udp(udp, payload))))`
        let r: Result<(), ()> = usock.dispatch(&mut iface.inner, |inner, _meta, (ip, udp, payload)| {
            let packet = Packet::new(ip, IpPayload::Udp(udp, payload));
            emitted = emit_as_dispatch::<12>(&packet, &inner.caps, &mut h, &mut c);
            Ok(())
        });
        crate::vdump!("emitted={} hdr={:02x?} udp={:02x?}", emitted, h, c);
        kani::cover!(emitted && peer_ll, "datagram for a link-local peer");
        kani::cover!(emitted && !peer_ll && data[0] == 0xaa, "datagram for a global peer");
        crate::vassert!(r.is_ok() && emitted, "prop:c10_queued_datagram_is_dispatched_as_a_udp_packet_of_its_size");
        // any own unicast address is a legal source (which one RFC 6724 prefers is not this property's subject)
        let src_own = eq16(&h, 8, &LL) || eq16(&h, 8, &GL);
        crate::vassert!(src_own, "prop:c10_source_is_own_unicast_address");
        let src = if eq16(&h, 8, &LL) { LL } else { GL };
        let plen = check_ipv6(&h, 0, 52, MTU, 17, &src, &peer);
        crate::vassert!(plen == 12, "prop:c10_ipv6_payload_length_matches_payload");
        crate::vassert!(get16(&c, 0) == lport && get16(&c, 2) == dport, "prop:c10_udp_ports");
        crate::vassert!(get16(&c, 4) as usize == plen, "prop:c10_udp_length_field");
        crate::vassert!(c[8] == data[0] && c[9] == data[1] && c[10] == data[2] && c[11] == data[3], "prop:c10_udp_payload_unmodified");
        // RFC 8200 8.1: the checksum is mandatory over IPv6, a computed zero is sent as 0xffff
        crate::vassert!(get16(&c, 6) != 0, "prop:c10_udp_checksum_present");
        crate::vassert!(sum1071(&c, 0, 12, pseudo6(&h, 0, 17, 12)) == 0xffff, "prop:c10_udp_checksum_valid");
    }

    // ---- 3a. MLDv2 report (RFC 3810 5.2, RFC 2711) as built by mldv2_report_packet for multicast_egress
    #[cfg(all(feature = "proto-ipv6", feature = "medium-ethernet", feature = "multicast"))]
    fn mld_report_case(has_ll: bool) {
        env6_eth!(iface, now, ChecksumCapabilities::default(), has_ll);
        let mut group = [0u8; 16];
        group[0] = 0xff;
        group[1] = kani::any();
        kani::assume(group[1] & 0xf0 == 0);
        group[14] = kani::any();
        group[15] = kani::any();
        // the three record types multicast_egress uses (join, leave, answer to a query)
        let sel: u8 = kani::any();
        kani::assume(sel < 3);
        let rt = if sel == 0 { MldRecordType::ChangeToInclude } else if sel == 1 { MldRecordType::ChangeToExclude } else { MldRecordType::ModeIsExclude };
        let recs = [MldAddressRecordRepr::new(rt, Ipv6Address::from(group))];
        let pkt = iface.inner.mldv2_report_packet(&recs[..]);
        let mut h = [0u8; 40];
        let mut c = [0u8; 36];
        let mut emitted = false;
        if let Some(p) = &pkt {
            let ip_repr = p.ip_repr();
            if ip_repr.header_len() == 40 && ip_repr.payload_len() == 36 {
                // the two emit calls of dispatch_ip's transmit closure
                ip_repr.emit(&mut h[..], &iface.inner.caps.checksum);
                p.emit_payload(&ip_repr, &mut c[..], &iface.inner.caps);
                emitted = true;
            }
        }
        crate::vdump!("emitted={} hdr={:02x?} payload={:02x?}", emitted, h, c);
        kani::cover!(emitted && sel == 0 && group[15] == 0x16, "state-change record");
        kani::cover!(emitted && sel == 2, "current-state record");
        crate::vassert!(emitted, "prop:c10_mld_report_has_one_record_behind_an_8_octet_hop_by_hop_header");
        // RFC 3810 5.2.13 / 5.2.14: link-local source (or :: before one is acquired), destination ff02::16, hop limit 1
        let src = if has_ll { LL } else { UNSPEC };
        let plen = check_ipv6(&h, 0, 76, MTU, 0, &src, &ALL_MLDV2);
        crate::vassert!(h[7] == 1, "prop:c10_mld_hop_limit_1");
        crate::vassert!(plen == 36, "prop:c10_ipv6_payload_length_matches_payload");
        // hop-by-hop options header (RFC 8200 4.3): next header ICMPv6, length in 8-octet units beyond the first
        let hlen = (c[1] as usize + 1) * 8;
        crate::vassert!(c[0] == 58 && hlen <= plen, "prop:c10_hop_by_hop_header_next_header_and_length");
        // options: TLVs that fill the header exactly (padded to a multiple of 8 octets), a router alert for MLD
        // (RFC 2711: type 5, length 2, value 0, alignment 2n+0), otherwise padding only
        let mut o = 2usize;
        let mut ok = true;
        let mut alert = false;
        let mut g = 0;
        while g < 14 {
            if ok && o < hlen {
                let t = c[o];
                if t == 0 {
                    o += 1;
                } else if o + 1 >= hlen {
                    ok = false;
                } else {
                    let l = c[o + 1] as usize;
                    if o + 2 + l > hlen {
                        ok = false;
                    } else {
                        if t == 5 {
                            if l == 2 && c[o + 2] == 0 && c[o + 3] == 0 && o % 2 == 0 && !alert {
                                alert = true;
                            } else {
                                ok = false;
                            }
                        } else if t == 1 {
                            // PadN: option data zero (RFC 8200 4.2); at most 5 octets of data fit here
                            let j = any_lt(6);
                            if j < l && c[o + 2 + j] != 0 {
                                ok = false;
                            }
                        } else {
                            ok = false;
                        }
                        o += 2 + l;
                    }
                }
            }
            g += 1;
        }
        crate::vassert!(ok && o == hlen, "prop:c10_hop_by_hop_options_well_formed_and_padded");
        crate::vassert!(alert, "prop:c10_mld_report_carries_router_alert");
        // Multicast Listener Report v2 (RFC 3810 5.2): type 143, code 0, reserved 0, one record without sources / aux data
        let m = hlen;
        let mlen = plen - hlen;
        crate::vassert!(mlen == 8 + 20, "prop:c10_mld_report_length_matches_record_count");
        crate::vassert!(c[m] == 143 && c[m + 1] == 0 && c[m + 4] == 0 && c[m + 5] == 0, "prop:c10_mld_report_type_code_reserved");
        crate::vassert!(get16(&c, m + 6) == 1, "prop:c10_mld_report_record_count");
        crate::vassert!(c[m + 8] >= 1 && c[m + 8] <= 6 && c[m + 9] == 0 && get16(&c, m + 10) == 0, "prop:c10_mld_record_header");
        crate::vassert!(eq16(&c, m + 12, &group), "prop:c10_mld_record_group_address");
        crate::vassert!(sum1071(&c, m, 28, pseudo6(&h, 0, 58, 28)) == 0xffff, "prop:c10_icmpv6_checksum_valid");
    }

    // @harness props=C10 cfg=KI6i tier=q to=900 mem=8 unwind=20 opts=nomem covers=2 funcs=InterfaceInner::mldv2_report_packet;InterfaceInner::link_local_ipv6_address;Packet::emit_payload;wire::Ipv6Repr::emit;wire::Ipv6ExtHeaderRepr::emit;wire::Ipv6HopByHopRepr::emit;wire::Ipv6OptionRepr::emit;wire::Icmpv6Repr::emit;wire::MldRepr::emit bounds=emit-level_(IPv6_header_and_payload_octets_through_Packet::emit_payload,_no_Ethernet_header:_see_file_comment);_Ethernet,_MTU_1500,_tx_checksums_on;_own_fe80::1_and_2001:db8::1;_one_address_record_of_type_3,_4_or_2_for_the_group_ff0S::XXXX_(S,_XXXX_symbolic)
    #[cfg(all(feature = "proto-ipv6", feature = "medium-ethernet", feature = "multicast"))]
    #[kani::proof]
    pub(crate) fn pkt6_wf_mld_report() {
        mld_report_case(true);
    }

    // @harness props=C10 cfg=KI6i tier=q to=900 mem=8 unwind=20 opts=nomem covers=2 funcs=InterfaceInner::mldv2_report_packet;InterfaceInner::link_local_ipv6_address;Packet::emit_payload bounds=as_pkt6_wf_mld_report_on_an_interface_without_a_link-local_address_(only_2001:db8::1):_source_is_the_unspecified_address
    #[cfg(all(feature = "proto-ipv6", feature = "medium-ethernet", feature = "multicast"))]
    #[kani::proof]
    pub(crate) fn pkt6_wf_mld_report_unspecified_source() {
        mld_report_case(false);
    }

    // ---- Ethernet destination of IPv6 multicast (RFC 2464 7): the mapping lookup_hardware_addr hands to dispatch_ip
    // @harness props=C10 cfg=KI6i tier=q to=600 mem=8 unwind=20 opts=nomem covers=1 funcs=InterfaceInner::lookup_hardware_addr bounds=Ethernet;_own_fe80::1_and_2001:db8::1;_any_IPv6_multicast_destination_ffXX:0:0:0:0:0:XXXX:XXXX_(6_symbolic_octets)
    #[cfg(all(feature = "proto-ipv6", feature = "medium-ethernet"))]
    #[kani::proof]
    pub(crate) fn lookup6_multicast_hardware_addr() {
        env6_eth!(iface, now, ChecksumCapabilities::default());
        let mut dst = [0u8; 16];
        dst[0] = 0xff;
        dst[1] = kani::any();
        dst[12] = kani::any();
        dst[13] = kani::any();
        dst[14] = kani::any();
        dst[15] = kani::any();
        let r = iface.inner.lookup_hardware_addr(crate::verif_dev::NoTx, &IpAddress::Ipv6(Ipv6Address::from(dst)), &mut iface.fragmenter);
        let mut mac = [0u8; 6];
        let mut ok = false;
        if let Ok((HardwareAddress::Ethernet(EthernetAddress(m)), _tok)) = r {
            mac = m;
            ok = true;
        }
        kani::cover!(ok && dst[15] == 0x16 && dst[1] == 0x02, "mapping obtained");
        crate::vassert!(ok, "prop:c10_multicast_destination_needs_no_neighbor_discovery");
        crate::vassert!(mac[0] == 0x33 && mac[1] == 0x33 && mac[2] == dst[12] && mac[3] == dst[13] && mac[4] == dst[14] && mac[5] == dst[15], "prop:c10_ethernet_destination_is_multicast_mapping_of_group");
    }

    // ---- 4a. raw-IP medium: echo reply to a request for an own address or for the all-nodes group (RFC 4443 4.2: the
    // reply to a multicast request is sourced from a unicast address of the interface)
    // @harness props=C10 cfg=KI6i tier=q to=900 mem=8 unwind=20 opts=nomem covers=3 funcs=InterfaceInner::process_ip;InterfaceInner::process_ipv6;InterfaceInner::process_icmpv6;InterfaceInner::icmpv6_reply;InterfaceInner::get_source_address_ipv6;wire::Ipv6Repr::emit;wire::Icmpv6Repr::emit bounds=emit-level_(the_whole_raw-IP_frame_=_IPv6_header_+_ICMPv6_message,_taken_from_the_two_emit_calls:_see_file_comment);_raw-IP_medium,_MTU_1500,_time_fixed,_ICMPv6_tx_checksum_on_(rx_verification_off);_own_fe80::1_and_2001:db8::1;_echo_request_to_fe80::1,_2001:db8::1_or_ff02::1_from_fe80::2:XXXX_or_2001:db8::2:XXXX_with_any_ident,_seq_and_4_fixed_data_octets;_empty_socket_set
    #[cfg(all(feature = "proto-ipv6", feature = "medium-ip", feature = "auto-icmp-echo-reply"))]
    #[kani::proof]
    pub(crate) fn pkt6_wf_echo_reply_raw_ip() {
        let mut caps = ChecksumCapabilities::default();
        caps.icmpv6 = Checksum::Tx;
        let mut dev0 = NullDev { medium: Medium::Ip, mtu: MTU, checksum: caps };
        let now = Instant::from_micros(NOW_US);
        let mut iface = Interface::new(Config::new(HardwareAddress::Ip), &mut dev0, now);
        iface.update_ip_addrs(|a| {
            a.push(IpCidr::new(IpAddress::Ipv6(Ipv6Address::from(LL)), 64)).unwrap();
            a.push(IpCidr::new(IpAddress::Ipv6(Ipv6Address::from(GL)), 64)).unwrap();
        });
        let peer_ll: bool = kani::any();
        let peer = peer_addr(peer_ll, kani::any());
        let sel: u8 = kani::any();
        kani::assume(sel < 3);
        let dst = if sel == 0 { LL } else if sel == 1 { GL } else { ALL_NODES };
        let ident: u16 = kani::any();
        let seq_no: u16 = kani::any();
        let mut rq = [0u8; 52];
        ipv6_header(&mut rq, 0, 12, 58, 64, &peer, &dst);
        rq[40] = 128;
        put16(&mut rq, 44, ident);
        put16(&mut rq, 46, seq_no);
        rq[48] = 0xde;
        rq[49] = 0xad;
        rq[50] = 0xbe;
        rq[51] = 0xef;
        let mut storage = [SocketStorage::EMPTY; 1];
        let mut sockets = SocketSet::new(&mut storage[..]);
        let reply = iface.inner.process_ip(&mut sockets, PacketMeta::default(), &rq[..], &mut iface.fragments);
        let mut h = [0u8; 40];
        let mut c = [0u8; 12];
        let mut emitted = false;
        if let Some(p) = &reply {
            emitted = emit_as_dispatch::<12>(p, &iface.inner.caps, &mut h, &mut c);
        }
        crate::vdump!("sel={} emitted={} hdr={:02x?} icmp={:02x?}", sel, emitted, h, c);
        kani::cover!(emitted && sel == 0, "reply from the link-local address");
        kani::cover!(emitted && sel == 1 && !peer_ll, "reply from the global address");
        kani::cover!(emitted && sel == 2, "reply to a request for the all-nodes group");
        crate::vassert!(emitted, "prop:c10_echo_reply_is_an_icmpv6_packet_of_the_request_size");
        let src_own = eq16(&h, 8, &LL) || eq16(&h, 8, &GL);
        crate::vassert!(src_own, "prop:c10_source_is_own_unicast_address");
        // unicast request: the source of the reply is the destination of the request
        let src = if sel == 0 { LL } else if sel == 1 { GL } else if eq16(&h, 8, &LL) { LL } else { GL };
        let plen = check_ipv6(&h, 0, 52, MTU, 58, &src, &peer);
        crate::vassert!(plen == 12, "prop:c10_ipv6_payload_length_matches_payload");
        crate::vassert!(c[0] == 129 && c[1] == 0 && get16(&c, 4) == ident && get16(&c, 6) == seq_no, "prop:c10_icmpv6_echo_fields");
        crate::vassert!(c[8] == 0xde && c[9] == 0xad && c[10] == 0xbe && c[11] == 0xef, "prop:c10_icmpv6_echo_data_returned_unmodified");
        crate::vassert!(sum1071(&c, 0, 12, pseudo6(&h, 0, 58, 12)) == 0xffff, "prop:c10_icmpv6_checksum_valid");
    }

    // ---- 4b. `fits the MTU` for TCP over IPv6 on a link with a small MTU: the announced MSS and the first data
    // segment of a connection opened through the socket API (connect, SYN, SYN-ACK with any MSS option, send)
    // @harness props=C10 cfg=KI6t tier=q to=1200 mem=8 unwind=20 opts=nomem,fs128 covers=2 funcs=tcp::Socket::connect;tcp::Socket::dispatch;tcp::Socket::process;tcp::Socket::send_slice;InterfaceInner::ip_mtu bounds=representation-level_(sizes_of_the_segments_handed_to_socket_egress's_closure);_raw-IP_medium,_MTU_120_octets_(concrete;_below_the_IPv6_minimum_on_purpose:_small_buffers),_time_fixed;_own_2001:db8::1;_active_open_to_2001:db8::2:1_port_80;_SYN-ACK_with_any_MSS_option_value_and_window_1000;_64_octets_queued
    #[cfg(all(feature = "proto-ipv6", feature = "medium-ip", feature = "socket-tcp"))]
    #[kani::proof]
    pub(crate) fn pkt6_tcp_segments_fit_small_mtu() {
        use crate::socket::tcp as stcp;
        const M: usize = 120;
        let mut dev0 = NullDev { medium: Medium::Ip, mtu: M, checksum: ChecksumCapabilities::ignored() };
        let now = Instant::from_micros(NOW_US);
        let mut iface = Interface::new(Config::new(HardwareAddress::Ip), &mut dev0, now);
        iface.update_ip_addrs(|a| {
            a.push(IpCidr::new(IpAddress::Ipv6(Ipv6Address::from(GL)), 64)).unwrap();
        });
        let peer = peer_addr(false, 1);
        let mut rxb = [0u8; 64];
        let mut txb = [0u8; 64];
        let mut s = stcp::Socket::new(stcp::SocketBuffer::new(&mut rxb[..]), stcp::SocketBuffer::new(&mut txb[..]));
        s.connect(&mut iface.inner, (IpAddress::Ipv6(Ipv6Address::from(peer)), 80), 49152).unwrap();
        let mut syn_seq = TcpSeqNumber(0);
        let mut syn_mss: Option<u16> = None;
        let mut syn_total = 0usize;
        let mut syn_consistent = false;
        let r1: Result<(), ()> = s.dispatch(&mut iface.inner, |_cx, (ip, tcp)| {
            syn_seq = tcp.seq_number;
            syn_mss = tcp.max_seg_size;
            syn_total = ip.header_len() + ip.payload_len();
            syn_consistent = ip.payload_len() == tcp.buffer_len() && tcp.control == TcpControl::Syn;
            Ok(())
        });
        crate::vassert!(r1.is_ok() && syn_consistent && syn_total <= M, "prop:c10_frame_fits_mtu");
        // RFC 9293 3.7.1 with RFC 8200: the MSS announced over IPv6 is the MTU minus 60
        crate::vassert!(syn_mss == Some((M - 60) as u16), "prop:c10_syn_announces_mss_that_fits_mtu");
        let pm: u16 = kani::any();
        let synack = TcpRepr {
            src_port: 80, dst_port: 49152, control: TcpControl::Syn, seq_number: TcpSeqNumber(1000),
            ack_number: Some(syn_seq + 1), window_len: 1000, window_scale: None, max_seg_size: Some(pm),
            sack_permitted: false, sack_ranges: [None, None, None], timestamp: None, payload: &[],
        };
        let ipr = IpRepr::Ipv6(Ipv6Repr { src_addr: Ipv6Address::from(peer), dst_addr: Ipv6Address::from(GL), next_header: IpProtocol::Tcp, payload_len: synack.buffer_len(), hop_limit: 64 });
        let _ = s.process(&mut iface.inner, &ipr, &synack);
        let established = s.state() == stcp::State::Established;
        let data = [0x55u8; 64];
        let queued = if established { s.send_slice(&data[..]).unwrap_or(0) } else { 0 };
        let mut seg_total = 0usize;
        let mut seg_payload = 0usize;
        let mut seg_consistent = true;
        let mut seen = false;
        let r2: Result<(), ()> = s.dispatch(&mut iface.inner, |_cx, (ip, tcp)| {
            seen = true;
            seg_total = ip.header_len() + ip.payload_len();
            seg_payload = tcp.payload.len();
            seg_consistent = ip.payload_len() == tcp.buffer_len() && ip.header_len() == 40;
            Ok(())
        });
        crate::vdump!("established={} queued={} seen={} total={} payload={} pm={}", established, queued, seen, seg_total, seg_payload, pm);
        kani::cover!(established && seen && seg_payload == M - 60, "data segment filling the MTU");
        kani::cover!(established && seen && seg_payload == 48 && pm < 48, "data segment limited by the peer's MSS floor");
        if seen {
            crate::vassert!(seg_consistent, "prop:c10_ipv6_payload_length_matches_payload");
            crate::vassert!(seg_total <= M, "prop:c10_frame_fits_mtu");
        }
    }

    // ---- 1e. UDP datagram from a socket to an IPv6 multicast group: legal (unicast, own) source
    // @harness props=C10 cfg=KI6u tier=q to=900 mem=8 unwind=20 opts=nomem covers=1 funcs=udp::Socket::dispatch;InterfaceInner::get_source_address;InterfaceInner::get_source_address_ipv6;wire::Ipv6Repr::emit;wire::UdpRepr::emit bounds=emit-level_(IPv6_header_and_UDP_datagram_octets,_no_Ethernet_header:_see_file_comment);_Ethernet,_MTU_1500,_time_fixed,_tx_checksums_on;_own_fe80::1_and_2001:db8::1;_one_UDP_socket_bound_to_port_5000_with_one_queued_4-octet_datagram_to_port_5001_of_the_group_ff0S::XXXX_(S_and_XXXX_symbolic)
    #[cfg(all(feature = "proto-ipv6", feature = "medium-ethernet", feature = "socket-udp"))]
    #[kani::proof]
    pub(crate) fn pkt6_wf_udp_socket_multicast() {
        use crate::socket::udp as sudp;
        env6_eth!(iface, now, ChecksumCapabilities::default());
        let mut group = [0u8; 16];
        group[0] = 0xff;
        group[1] = kani::any();
        kani::assume(group[1] & 0xf0 == 0);
        group[14] = kani::any();
        group[15] = kani::any();
        let mut urm = [sudp::PacketMetadata::EMPTY; 1];
        let mut urp = [0u8; 8];
        let mut utm = [sudp::PacketMetadata::EMPTY; 1];
        let mut utp = [0u8; 8];
        let mut usock = sudp::Socket::new(sudp::PacketBuffer::new(&mut urm[..], &mut urp[..]), sudp::PacketBuffer::new(&mut utm[..], &mut utp[..]));
        usock.bind(5000).unwrap();
        let data: [u8; 4] = [1, 2, 3, 4];
        usock.send_slice(&data[..], (IpAddress::Ipv6(Ipv6Address::from(group)), 5001)).unwrap();
        let mut h = [0u8; 40];
        let mut c = [0u8; 12];
        let mut emitted = false;
        let r: Result<(), ()> = usock.dispatch(&mut iface.inner, |inner, _meta, (ip, udp, payload)| {
            let packet = Packet::new(ip, IpPayload::Udp(udp, payload));
            emitted = emit_as_dispatch::<12>(&packet, &inner.caps, &mut h, &mut c);
            Ok(())
        });
        crate::vdump!("emitted={} hdr={:02x?} udp={:02x?}", emitted, h, c);
        kani::cover!(emitted && group[1] == 0x02 && group[15] == 0xfb, "datagram for a link-local group");
        crate::vassert!(r.is_ok() && emitted, "prop:c10_queued_datagram_is_dispatched_as_a_udp_packet_of_its_size");
        let src_own = eq16(&h, 8, &LL) || eq16(&h, 8, &GL);
        crate::vassert!(src_own, "prop:c10_source_is_own_unicast_address");
        let src = if eq16(&h, 8, &LL) { LL } else { GL };
        let plen = check_ipv6(&h, 0, 52, MTU, 17, &src, &group);
        crate::vassert!(plen == 12 && get16(&c, 4) == 12, "prop:c10_udp_length_field");
        crate::vassert!(get16(&c, 0) == 5000 && get16(&c, 2) == 5001, "prop:c10_udp_ports");
        crate::vassert!(get16(&c, 6) != 0 && sum1071(&c, 0, 12, pseudo6(&h, 0, 17, 12)) == 0xffff, "prop:c10_udp_checksum_valid");
    }
}
