// Interface egress beyond IPv4 unicast, C10 (every transmitted frame is well-formed, fits the MTU, has a legal source):
// IPv6 over Ethernet (ICMPv6 echo reply, port-unreachable error, TCP reset, UDP datagram from a socket), NDISC
// (neighbor solicitation / advertisement), MLDv2 reports, IGMP reports, IPv6 on the raw-IP medium.
// Spliced into src/iface/interface/mod.rs (child of iface::interface) under single-socket-type configurations.
//
// Every oracle below reads the raw octets handed to `TxToken::consume` and is written from the RFCs (8200, 4443,
// 4861, 3810, 2711, 2464, 9293, 768, 2236, 1112, 1071); none of the crate's packet views or parsers is used on the
// transmitted frame.  The checksum reference is loop-free (no influence on the unwinding bound).
#[allow(dead_code, unused_imports, unused_variables, unused_mut, unused_macros, unused_assignments)]
mod v_iface_egress6 {
    use super::*;
    use crate::iface::{SocketHandle, SocketStorage};
    use crate::phy::{Checksum, ChecksumCapabilities};
    use crate::verif_common::*;
    use crate::verif_dev::{CapTx, NullDev, TxState};

    const OWN_MAC: [u8; 6] = [0x02, 0, 0, 0, 0, 1];
    const N: usize = 128;
    // concrete MTU and time (see iface_egress.rs: symbolic ones exhaust memory)
    const MTU: usize = 1500;
    const NOW_US: i64 = 1_000_000;

    fn get16(b: &[u8], o: usize) -> u16 {
        ((b[o] as u16) << 8) | b[o + 1] as u16
    }
    fn put16(b: &mut [u8], o: usize, v: u16) {
        b[o] = (v >> 8) as u8;
        b[o + 1] = v as u8;
    }
    fn put32(b: &mut [u8], o: usize, v: u32) {
        put16(b, o, (v >> 16) as u16);
        put16(b, o + 2, v as u16);
    }
    /// 16-bit big-endian word `i` of the `len`-octet field starting at `from` (RFC 1071: odd tail padded with zero)
    fn wd(b: &[u8], from: usize, len: usize, i: usize) -> u32 {
        let o = 2 * i;
        if o + 1 < len {
            ((b[from + o] as u32) << 8) | b[from + o + 1] as u32
        } else if o < len {
            (b[from + o] as u32) << 8
        } else {
            0
        }
    }
    fn sum8(b: &[u8], from: usize, len: usize, i: usize) -> u32 {
        wd(b, from, len, i) + wd(b, from, len, i + 1) + wd(b, from, len, i + 2) + wd(b, from, len, i + 3)
            + wd(b, from, len, i + 4) + wd(b, from, len, i + 5) + wd(b, from, len, i + 6) + wd(b, from, len, i + 7)
    }
    /// RFC 1071 reference: one's-complement sum of `len` (<= 128) octets at `from` plus `init`, carries folded
    fn sum1071(b: &[u8], from: usize, len: usize, init: u32) -> u16 {
        let mut acc: u32 = init
            + sum8(b, from, len, 0) + sum8(b, from, len, 8) + sum8(b, from, len, 16) + sum8(b, from, len, 24)
            + sum8(b, from, len, 32) + sum8(b, from, len, 40) + sum8(b, from, len, 48) + sum8(b, from, len, 56);
        acc = (acc & 0xffff) + (acc >> 16);
        acc = (acc & 0xffff) + (acc >> 16);
        acc as u16
    }
    fn any_unicast_mac() -> [u8; 6] {
        let m: [u8; 6] = kani::any();
        kani::assume(m[0] & 1 == 0);
        m
    }
    fn eq6(b: &[u8], o: usize, a: &[u8; 6]) -> bool {
        b[o] == a[0] && b[o + 1] == a[1] && b[o + 2] == a[2] && b[o + 3] == a[3] && b[o + 4] == a[4] && b[o + 5] == a[5]
    }

    // ------------------------------------------------------------------------------------------------ IPv6
    #[cfg(feature = "proto-ipv6")]
    use self::h6::*;
    #[cfg(feature = "proto-ipv6")]
    mod h6 {
        use super::*;

        /// own addresses: fe80::1/64 and 2001:db8::1/64
        pub(super) const LL: [u8; 16] = [0xfe, 0x80, 0, 0, 0, 0, 0, 0, 0, 0, 0, 0, 0, 0, 0, 1];
        pub(super) const GL: [u8; 16] = [0x20, 0x01, 0x0d, 0xb8, 0, 0, 0, 0, 0, 0, 0, 0, 0, 0, 0, 1];
        pub(super) const UNSPEC: [u8; 16] = [0; 16];
        /// solicited-node multicast address of both own addresses
        pub(super) const SOL_OWN: [u8; 16] = [0xff, 0x02, 0, 0, 0, 0, 0, 0, 0, 0, 0, 1, 0xff, 0, 0, 1];
        pub(super) const ALL_NODES: [u8; 16] = [0xff, 0x02, 0, 0, 0, 0, 0, 0, 0, 0, 0, 0, 0, 0, 0, 1];
        /// all MLDv2-capable routers (RFC 3810 5.2.14)
        pub(super) const ALL_MLDV2: [u8; 16] = [0xff, 0x02, 0, 0, 0, 0, 0, 0, 0, 0, 0, 0, 0, 0, 0, 0x16];

        /// a neighbor on one of the two on-link prefixes: fe80::2:XXXX or 2001:db8::2:XXXX
        pub(super) fn peer_addr(link_local: bool, lo: u16) -> [u8; 16] {
            let mut a = if link_local { LL } else { GL };
            a[13] = 2;
            a[14] = (lo >> 8) as u8;
            a[15] = lo as u8;
            a
        }
        pub(super) fn eq16(b: &[u8], o: usize, a: &[u8; 16]) -> bool {
            b[o] == a[0] && b[o + 1] == a[1] && b[o + 2] == a[2] && b[o + 3] == a[3]
                && b[o + 4] == a[4] && b[o + 5] == a[5] && b[o + 6] == a[6] && b[o + 7] == a[7]
                && b[o + 8] == a[8] && b[o + 9] == a[9] && b[o + 10] == a[10] && b[o + 11] == a[11]
                && b[o + 12] == a[12] && b[o + 13] == a[13] && b[o + 14] == a[14] && b[o + 15] == a[15]
        }
        pub(super) fn put_addr(b: &mut [u8], o: usize, a: &[u8; 16]) {
            b[o] = a[0]; b[o + 1] = a[1]; b[o + 2] = a[2]; b[o + 3] = a[3];
            b[o + 4] = a[4]; b[o + 5] = a[5]; b[o + 6] = a[6]; b[o + 7] = a[7];
            b[o + 8] = a[8]; b[o + 9] = a[9]; b[o + 10] = a[10]; b[o + 11] = a[11];
            b[o + 12] = a[12]; b[o + 13] = a[13]; b[o + 14] = a[14]; b[o + 15] = a[15];
        }
        /// RFC 8200 header at `o` (traffic class and flow label zero)
        pub(super) fn ipv6_header(b: &mut [u8], o: usize, payload_len: usize, nh: u8, hop: u8, src: &[u8; 16], dst: &[u8; 16]) {
            b[o] = 0x60;
            b[o + 1] = 0;
            b[o + 2] = 0;
            b[o + 3] = 0;
            put16(b, o + 4, payload_len as u16);
            b[o + 6] = nh;
            b[o + 7] = hop;
            put_addr(b, o + 8, src);
            put_addr(b, o + 24, dst);
        }
        pub(super) fn eth_header(b: &mut [u8], dst: &[u8; 6], src: &[u8; 6], ethertype: u16) {
            b[0] = dst[0]; b[1] = dst[1]; b[2] = dst[2]; b[3] = dst[3]; b[4] = dst[4]; b[5] = dst[5];
            b[6] = src[0]; b[7] = src[1]; b[8] = src[2]; b[9] = src[3]; b[10] = src[4]; b[11] = src[5];
            put16(b, 12, ethertype);
        }
        /// RFC 8200 8.1 pseudo-header sum, addresses taken from the transmitted IPv6 header at `ip`
        pub(super) fn pseudo6(f: &[u8], ip: usize, nh: u8, upper_len: usize) -> u32 {
            sum8(f, ip + 8, 32, 0) + sum8(f, ip + 8, 32, 8) + (upper_len as u32 >> 16) + (upper_len as u32 & 0xffff) + nh as u32
        }
        /// RFC 2464 7: IPv6 multicast destination -> 33:33 + last four address octets
        pub(super) fn mcast_mac(a: &[u8; 16]) -> [u8; 6] {
            [0x33, 0x33, a[12], a[13], a[14], a[15]]
        }
        /// RFC 4291 2.7.1: ff02::1:ffXX:XXXX
        pub(super) fn solicited_node(a: &[u8; 16]) -> [u8; 16] {
            [0xff, 0x02, 0, 0, 0, 0, 0, 0, 0, 0, 0, 1, 0xff, a[13], a[14], a[15]]
        }

        /// Obligations common to every IPv6 packet; `ip` = offset of the IPv6 header in the frame (14 on Ethernet, 0 on
        /// raw IP), `flen` = length handed to the device.  Returns the payload length field.
        pub(super) fn check_ipv6(f: &[u8], ip: usize, flen: usize, ip_mtu: usize, nh: u8, src: &[u8; 16], dst: &[u8; 16]) -> usize {
            crate::vassert!(flen >= ip + 40 && flen <= ip + ip_mtu, "prop:c10_frame_fits_mtu");
            crate::vassert!(f[ip] >> 4 == 6, "prop:c10_ipv6_version");
            let plen = get16(f, ip + 4) as usize;
            crate::vassert!(plen + 40 + ip == flen, "prop:c10_ipv6_payload_length_matches_frame");
            crate::vassert!(f[ip + 6] == nh, "prop:c10_ipv6_next_header");
            crate::vassert!(f[ip + 7] != 0, "prop:c10_ipv6_hop_limit_nonzero");
            crate::vassert!(f[ip + 8] != 0xff, "prop:c10_source_is_never_multicast");
            crate::vassert!(eq16(f, ip + 8, src), "prop:c10_source_is_own_unicast_address");
            crate::vassert!(eq16(f, ip + 24, dst), "prop:c10_ipv6_destination");
            plen
        }
        /// Ethernet header (RFC 2464) in front of an IPv6 packet
        pub(super) fn check_eth6(f: &[u8], dmac: &[u8; 6]) {
            crate::vassert!(eq6(f, 0, dmac), "prop:c10_ethernet_destination_is_next_hop_hardware_address");
            crate::vassert!(eq6(f, 6, &OWN_MAC), "prop:c10_ethernet_source_is_own_hardware_address");
            crate::vassert!(get16(f, 12) == 0x86dd, "prop:c10_ethertype_matches_ip_version");
        }
    }

    /// Interface on Ethernet with fe80::1/64 and 2001:db8::1/64 (`$ll` = false: only the global address)
    #[cfg(all(feature = "proto-ipv6", feature = "medium-ethernet"))]
    macro_rules! env6_eth {
        ($iface:ident, $now:ident, $caps:expr) => {
            env6_eth!($iface, $now, $caps, true);
        };
        ($iface:ident, $now:ident, $caps:expr, $ll:expr) => {
            let mut dev0 = NullDev { medium: Medium::Ethernet, mtu: MTU + 14, checksum: $caps };
            let $now = Instant::from_micros(NOW_US);
            let mut $iface = Interface::new(Config::new(HardwareAddress::Ethernet(EthernetAddress(OWN_MAC))), &mut dev0, $now);
            $iface.update_ip_addrs(|a| {
                if $ll {
                    a.push(IpCidr::new(IpAddress::Ipv6(Ipv6Address::from(LL)), 64)).unwrap();
                }
                a.push(IpCidr::new(IpAddress::Ipv6(Ipv6Address::from(GL)), 64)).unwrap();
            });
        };
    }

    // ---- 1a. ICMPv6 echo reply (RFC 4443 4.2) in answer to an echo request received on Ethernet: the reply path of
    // socket_ingress (process_ethernet, then dispatch of the returned packet).
    // @harness props=C10 cfg=KI6i tier=q to=900 mem=8 unwind=20 opts=nomem covers=2 funcs=InterfaceInner::process_ethernet;InterfaceInner::process_ipv6;InterfaceInner::process_icmpv6;InterfaceInner::icmpv6_reply;InterfaceInner::dispatch;InterfaceInner::dispatch_ip;InterfaceInner::lookup_hardware_addr;Packet::emit_payload;wire::Ipv6Repr::emit;wire::Icmpv6Repr::emit bounds=Ethernet,_MTU_1500,_time_fixed,_ICMPv6_tx_checksum_on_(rx_verification_off:_request_checksum_free);_own_fe80::1_and_2001:db8::1;_echo_request_to_either_own_address_from_fe80::2:XXXX_or_2001:db8::2:XXXX_(XXXX_symbolic)_with_any_ident,_seq,_hop_limit_and_4_data_octets;_peer_in_the_neighbor_cache_with_any_unicast_MAC;_empty_socket_set
    #[cfg(all(feature = "proto-ipv6", feature = "medium-ethernet", feature = "auto-icmp-echo-reply"))]
    #[kani::proof]
    pub(crate) fn frame_wf_icmp6_echo_reply() {
        let mut caps = ChecksumCapabilities::default();
        caps.icmpv6 = Checksum::Tx;
        env6_eth!(iface, now, caps);
        let peer_ll: bool = kani::any();
        let peer = peer_addr(peer_ll, kani::any());
        let pmac = any_unicast_mac();
        iface.inner.neighbor_cache.fill(IpAddress::Ipv6(Ipv6Address::from(peer)), HardwareAddress::Ethernet(EthernetAddress(pmac)), now);
        let to_gl: bool = kani::any();
        let own = if to_gl { GL } else { LL };
        let ident: u16 = kani::any();
        let seq_no: u16 = kani::any();
        let data: [u8; 4] = kani::any();
        let mut rq = [0u8; 66];
        eth_header(&mut rq, &OWN_MAC, &pmac, 0x86dd);
        ipv6_header(&mut rq, 14, 12, 58, kani::any(), &peer, &own);
        rq[54] = 128;
        rq[55] = 0;
        put16(&mut rq, 56, kani::any());
        put16(&mut rq, 58, ident);
        put16(&mut rq, 60, seq_no);
        rq[62] = data[0];
        rq[63] = data[1];
        rq[64] = data[2];
        rq[65] = data[3];
        let mut storage = [SocketStorage::EMPTY; 1];
        let mut sockets = SocketSet::new(&mut storage[..]);
        let mut tx = TxState::<N>::new();
        let reply = iface.inner.process_ethernet(&mut sockets, PacketMeta::default(), &rq[..], &mut iface.fragments);
        if let Some(p) = reply {
            let r = iface.inner.dispatch(CapTx { st: &mut tx }, p, &mut iface.fragmenter);
            crate::vassert!(r.is_ok(), "prop:c10_reply_handed_to_device_exactly_once");
        }
        crate::vdump!("frames={} frame0={:02x?}", tx.frames, &tx.buf0[..tx.len0]);
        kani::cover!(tx.frames == 1 && to_gl && !peer_ll, "reply from the global address captured");
        kani::cover!(tx.frames == 1 && !to_gl && peer_ll && data[0] == 0xaa, "reply from the link-local address captured");
        crate::vassert!(tx.frames == 1, "prop:c10_reply_handed_to_device_exactly_once");
        let f = &tx.buf0;
        check_eth6(f, &pmac);
        // RFC 4443 4.2: the source of the reply to a unicast request is the destination of the request
        let plen = check_ipv6(f, 14, tx.len0, MTU, 58, &own, &peer);
        crate::vassert!(plen == 12, "prop:c10_ipv6_payload_length_matches_payload");
        crate::vassert!(f[54] == 129 && f[55] == 0, "prop:c10_icmpv6_echo_reply_type_and_code");
        crate::vassert!(get16(f, 58) == ident && get16(f, 60) == seq_no, "prop:c10_icmpv6_echo_fields");
        crate::vassert!(f[62] == data[0] && f[63] == data[1] && f[64] == data[2] && f[65] == data[3], "prop:c10_icmpv6_echo_data_returned_unmodified");
        crate::vassert!(sum1071(f, 54, 12, pseudo6(f, 14, 58, 12)) == 0xffff, "prop:c10_icmpv6_checksum_valid");
    }

    // ---- 2a. Neighbor solicitation (RFC 4861 4.3, 7.2.2) sent by dispatch_ip when the next hop is not in the cache
    // @harness props=C10 cfg=KI6i tier=q to=900 mem=8 unwind=20 opts=nomem covers=2 funcs=InterfaceInner::dispatch_ip;InterfaceInner::lookup_hardware_addr;InterfaceInner::route;InterfaceInner::get_source_address_ipv6;Packet::emit_payload;wire::Icmpv6Repr::emit;wire::NdiscRepr::emit;wire::NdiscOptionRepr::emit bounds=Ethernet,_MTU_1500,_time_fixed,_tx_checksums_on;_own_fe80::1_and_2001:db8::1;_empty_neighbor_cache;_an_ICMPv6_packet_for_the_on-link_neighbor_fe80::XX:XXXX_or_2001:db8::XX:XXXX_(3_symbolic_octets)
    #[cfg(all(feature = "proto-ipv6", feature = "medium-ethernet"))]
    #[kani::proof]
    pub(crate) fn frame_wf_ndisc_solicit() {
        env6_eth!(iface, now, ChecksumCapabilities::default());
        let peer_ll: bool = kani::any();
        let mut peer = if peer_ll { LL } else { GL };
        peer[13] = kani::any();
        peer[14] = kani::any();
        peer[15] = kani::any();
        let own = if peer_ll { LL } else { GL };
        let data = [0u8; 4];
        let icmp = Icmpv6Repr::EchoReply { ident: 1, seq_no: 2, data: &data[..] };
        let ip = Ipv6Repr { src_addr: Ipv6Address::from(own), dst_addr: Ipv6Address::from(peer), next_header: IpProtocol::Icmpv6, payload_len: 12, hop_limit: 64 };
        let packet = Packet::new_ipv6(ip, IpPayload::Icmpv6(icmp));
        let mut tx = TxState::<N>::new();
        let r = iface.inner.dispatch_ip(CapTx { st: &mut tx }, PacketMeta::default(), packet, &mut iface.fragmenter);
        crate::vdump!("r={:?} frames={} frame0={:02x?}", r, tx.frames, &tx.buf0[..tx.len0]);
        kani::cover!(tx.frames == 1 && peer_ll && peer[13] == 0xab, "solicitation for a link-local neighbor captured");
        kani::cover!(tx.frames == 1 && !peer_ll && peer[15] == 0x77, "solicitation for a global on-link neighbor captured");
        crate::vassert!(r.is_err() && tx.frames == 1, "prop:c10_only_the_solicitation_is_transmitted_while_the_neighbor_is_unknown");
        let f = &tx.buf0;
        let sol = solicited_node(&peer);
        check_eth6(f, &mcast_mac(&sol));
        crate::vassert!(f[0] == 0x33 && f[1] == 0x33 && f[2] == 0xff, "prop:c10_solicitation_sent_to_solicited_node_hardware_address");
        // any own unicast address is a legal source (RFC 4861 7.2.2); which one is chosen is C-source-selection's subject
        let src_own = eq16(f, 22, &LL) || eq16(f, 22, &GL);
        crate::vassert!(src_own, "prop:c10_source_is_own_unicast_address");
        let src = if eq16(f, 22, &LL) { LL } else { GL };
        let plen = check_ipv6(f, 14, tx.len0, MTU, 58, &src, &sol);
        crate::vassert!(f[21] == 255, "prop:c10_ndisc_hop_limit_255");
        crate::vassert!(plen == 32, "prop:c10_ipv6_payload_length_matches_payload");
        crate::vassert!(f[54] == 135 && f[55] == 0, "prop:c10_neighbor_solicit_type_and_code");
        crate::vassert!(f[58] == 0 && f[59] == 0 && f[60] == 0 && f[61] == 0, "prop:c10_neighbor_solicit_reserved_zero");
        crate::vassert!(eq16(f, 62, &peer), "prop:c10_neighbor_solicit_target_is_next_hop");
        // source link-layer address option: type 1, length 1 (8 octets), own MAC; options fill the message exactly
        crate::vassert!(f[78] == 1 && f[79] == 1 && eq6(f, 80, &OWN_MAC), "prop:c10_neighbor_solicit_source_link_layer_option");
        crate::vassert!(sum1071(f, 54, 32, pseudo6(f, 14, 58, 32)) == 0xffff, "prop:c10_icmpv6_checksum_valid");
    }

    // ---- 2b. Neighbor advertisement (RFC 4861 4.4, 7.2.4) in answer to a valid solicitation for an own address
    // @harness props=C10 cfg=KI6i tier=q to=900 mem=8 unwind=20 opts=nomem covers=2 funcs=InterfaceInner::process_ethernet;InterfaceInner::process_ipv6;InterfaceInner::process_icmpv6;InterfaceInner::process_ndisc;InterfaceInner::dispatch;InterfaceInner::dispatch_ip;InterfaceInner::lookup_hardware_addr;wire::NdiscRepr::parse;wire::NdiscRepr::emit;wire::NdiscOptionRepr::emit bounds=Ethernet,_MTU_1500,_time_fixed,_ICMPv6_tx_checksum_on_(rx_verification_off);_own_fe80::1_and_2001:db8::1;_solicitation_for_either_own_address_sent_to_its_solicited-node_group_by_fe80::2:XXXX_or_2001:db8::2:XXXX_with_a_source_link-layer_option_carrying_any_unicast_MAC;_empty_neighbor_cache
    #[cfg(all(feature = "proto-ipv6", feature = "medium-ethernet"))]
    #[kani::proof]
    pub(crate) fn frame_wf_ndisc_advert() {
        let mut caps = ChecksumCapabilities::default();
        caps.icmpv6 = Checksum::Tx;
        env6_eth!(iface, now, caps);
        let peer_ll: bool = kani::any();
        let peer = peer_addr(peer_ll, kani::any());
        let emac = any_unicast_mac();
        let smac = any_unicast_mac();
        let t_gl: bool = kani::any();
        let target = if t_gl { GL } else { LL };
        let mut rq = [0u8; 86];
        eth_header(&mut rq, &mcast_mac(&SOL_OWN), &emac, 0x86dd);
        ipv6_header(&mut rq, 14, 32, 58, 255, &peer, &SOL_OWN);
        rq[54] = 135;
        rq[55] = 0;
        put16(&mut rq, 56, kani::any());
        put_addr(&mut rq, 62, &target);
        rq[78] = 1;
        rq[79] = 1;
        rq[80] = smac[0];
        rq[81] = smac[1];
        rq[82] = smac[2];
        rq[83] = smac[3];
        rq[84] = smac[4];
        rq[85] = smac[5];
        let mut storage = [SocketStorage::EMPTY; 1];
        let mut sockets = SocketSet::new(&mut storage[..]);
        let mut tx = TxState::<N>::new();
        let reply = iface.inner.process_ethernet(&mut sockets, PacketMeta::default(), &rq[..], &mut iface.fragments);
        if let Some(p) = reply {
            let r = iface.inner.dispatch(CapTx { st: &mut tx }, p, &mut iface.fragmenter);
            crate::vassert!(r.is_ok(), "prop:c10_reply_handed_to_device_exactly_once");
        }
        crate::vdump!("frames={} frame0={:02x?}", tx.frames, &tx.buf0[..tx.len0]);
        kani::cover!(tx.frames == 1 && t_gl, "advertisement for the global address captured");
        kani::cover!(tx.frames == 1 && !t_gl && smac[5] == 0x42, "advertisement for the link-local address captured");
        crate::vassert!(tx.frames == 1, "prop:c10_reply_handed_to_device_exactly_once");
        let f = &tx.buf0;
        // RFC 4861 7.2.4: unicast to the solicitation's source, whose link-layer address is the one in its option
        check_eth6(f, &smac);
        let plen = check_ipv6(f, 14, tx.len0, MTU, 58, &target, &peer);
        crate::vassert!(f[21] == 255, "prop:c10_ndisc_hop_limit_255");
        crate::vassert!(plen == 32, "prop:c10_ipv6_payload_length_matches_payload");
        crate::vassert!(f[54] == 136 && f[55] == 0, "prop:c10_neighbor_advert_type_and_code");
        // flags: R clear (a host), S set (answer to a unicast-sourced solicitation), O free; 29 reserved bits zero
        crate::vassert!(f[58] & 0x80 == 0 && f[58] & 0x40 != 0, "prop:c10_neighbor_advert_flags");
        crate::vassert!(f[58] & 0x1f == 0 && f[59] == 0 && f[60] == 0 && f[61] == 0, "prop:c10_neighbor_advert_reserved_zero");
        crate::vassert!(eq16(f, 62, &target), "prop:c10_neighbor_advert_target_is_solicited_address");
        crate::vassert!(f[78] == 2 && f[79] == 1 && eq6(f, 80, &OWN_MAC), "prop:c10_neighbor_advert_target_link_layer_option");
        crate::vassert!(sum1071(f, 54, 32, pseudo6(f, 14, 58, 32)) == 0xffff, "prop:c10_icmpv6_checksum_valid");
    }

    // @harness props=C10 kind=mustfail cfg=KI6i tier=q to=900 mem=8 unwind=20 opts=nomem
    #[cfg(all(feature = "proto-ipv6", feature = "medium-ethernet"))]
    #[kani::proof]
    pub(crate) fn iface_egress6_must_fail() {
        env6_eth!(iface, now, ChecksumCapabilities::default());
        let mut peer = LL;
        peer[15] = kani::any();
        let data = [0u8; 4];
        let icmp = Icmpv6Repr::EchoReply { ident: 1, seq_no: 2, data: &data[..] };
        let ip = Ipv6Repr { src_addr: Ipv6Address::from(LL), dst_addr: Ipv6Address::from(peer), next_header: IpProtocol::Icmpv6, payload_len: 12, hop_limit: 64 };
        let packet = Packet::new_ipv6(ip, IpPayload::Icmpv6(icmp));
        let mut tx = TxState::<N>::new();
        let _ = iface.inner.dispatch_ip(CapTx { st: &mut tx }, PacketMeta::default(), packet, &mut iface.fragmenter);
        crate::vassert!(tx.buf0[77] == 1, "prop:deliberately_false_solicitation_target_ends_in_1");
    }

    // ---- experiments (temporary)
    #[cfg(all(feature = "proto-ipv6", feature = "medium-ethernet"))]
    fn x_direct(medium_ip: bool, direct_addrs: bool) {
        let caps = ChecksumCapabilities::default();
        let now = Instant::from_micros(NOW_US);
        let mut dev0 = NullDev { medium: if medium_ip { Medium::Ip } else { Medium::Ethernet }, mtu: if medium_ip { MTU } else { MTU + 14 }, checksum: caps };
        let hw = if medium_ip { HardwareAddress::Ip } else { HardwareAddress::Ethernet(EthernetAddress(OWN_MAC)) };
        let mut iface = Interface::new(Config::new(hw), &mut dev0, now);
        if direct_addrs {
            iface.inner.ip_addrs.push(IpCidr::new(IpAddress::Ipv6(Ipv6Address::from(LL)), 64)).unwrap();
            iface.inner.ip_addrs.push(IpCidr::new(IpAddress::Ipv6(Ipv6Address::from(GL)), 64)).unwrap();
        } else {
            iface.update_ip_addrs(|a| {
                a.push(IpCidr::new(IpAddress::Ipv6(Ipv6Address::from(LL)), 64)).unwrap();
                a.push(IpCidr::new(IpAddress::Ipv6(Ipv6Address::from(GL)), 64)).unwrap();
            });
        }
        let peer = peer_addr(true, 7);
        let pmac = [2u8, 0, 0, 0, 0, 2];
        if !medium_ip {
            iface.inner.neighbor_cache.fill(IpAddress::Ipv6(Ipv6Address::from(peer)), HardwareAddress::Ethernet(EthernetAddress(pmac)), now);
        }
        let ident: u16 = kani::any();
        let seq_no: u16 = kani::any();
        let data: [u8; 4] = kani::any();
        let icmp = Icmpv6Repr::EchoReply { ident, seq_no, data: &data[..] };
        let ip = Ipv6Repr { src_addr: Ipv6Address::from(LL), dst_addr: Ipv6Address::from(peer), next_header: IpProtocol::Icmpv6, payload_len: 12, hop_limit: 64 };
        let packet = Packet::new_ipv6(ip, IpPayload::Icmpv6(icmp));
        let mut tx = TxState::<N>::new();
        let r = iface.inner.dispatch_ip(CapTx { st: &mut tx }, PacketMeta::default(), packet, &mut iface.fragmenter);
        kani::cover!(tx.frames == 1 && data[0] == 0xaa, "captured");
        crate::vassert!(r.is_ok() && tx.frames == 1, "prop:c10_reply_handed_to_device_exactly_once");
        let f = &tx.buf0;
        let ip = if medium_ip { 0 } else { 14 };
        let plen = check_ipv6(f, ip, tx.len0, MTU, 58, &LL, &peer);
        crate::vassert!(plen == 12, "prop:c10_ipv6_payload_length_matches_payload");
        crate::vassert!(sum1071(f, ip + 40, 12, pseudo6(f, ip, 58, 12)) == 0xffff, "prop:c10_icmpv6_checksum_valid");
    }
    // @harness props=C10 cfg=KI6i tier=t to=600 mem=8 unwind=20 opts=nomem,fs512 covers=1
    #[cfg(all(feature = "proto-ipv6", feature = "medium-ethernet"))]
    #[kani::proof]
    pub(crate) fn x1_eth_update() {
        x_direct(false, false);
    }
    // @harness props=C10 cfg=KI6i tier=t to=1200 mem=16 unwind=18 opts=nomem,fs200 covers=1
    #[cfg(all(feature = "proto-ipv6", feature = "medium-ethernet"))]
    #[kani::proof]
    pub(crate) fn x2_eth_direct() {
        x_direct(false, true);
    }
    // @harness props=C10 cfg=KI6i tier=t to=1200 mem=8 unwind=6 opts=nomem,fs200 covers=1
    #[cfg(all(feature = "proto-ipv6", feature = "medium-ethernet"))]
    #[kani::proof]
    pub(crate) fn x3_ip_direct() {
        x_direct(true, true);
    }

    #[cfg(feature = "proto-ipv6")]
    #[inline(never)]
    fn junk_marker(n: usize) -> usize {
        let mut i = 0;
        let mut acc = 0;
        while i < n {
            acc += i;
            i += 1;
        }
        acc
    }
    #[cfg(feature = "proto-ipv6")]
    #[inline(never)]
    fn e1_sink(icmp: Icmpv6Repr, n: usize) -> usize {
        match icmp {
            Icmpv6Repr::EchoReply { ident, .. } => ident as usize,
            Icmpv6Repr::EchoRequest { .. } => junk_marker(n),
            Icmpv6Repr::Mld(_) => junk_marker(n) + 1,
            _ => junk_marker(n) + 2,
        }
    }
    #[cfg(feature = "proto-ipv6")]
    #[inline(never)]
    fn e2_sink(p: IpPayload, n: usize) -> usize {
        match p {
            IpPayload::Icmpv6(icmp) => e1_sink(icmp, n),
            _ => junk_marker(n) + 3,
        }
    }
    #[cfg(feature = "proto-ipv6")]
    #[inline(never)]
    fn e3_sink(p: Packet, n: usize) -> usize {
        match p.payload() {
            IpPayload::Icmpv6(icmp) => e1_sink(*icmp, n),
            _ => junk_marker(n) + 3,
        }
    }
    #[cfg(feature = "proto-ipv6")]
    fn e_case(which: u8) {
        let data: [u8; 4] = kani::any();
        let ident: u16 = kani::any();
        let n: usize = kani::any();
        let icmp = Icmpv6Repr::EchoReply { ident, seq_no: 2, data: &data[..] };
        let r = if which == 1 {
            e1_sink(icmp, n)
        } else if which == 2 {
            e2_sink(IpPayload::Icmpv6(icmp), n)
        } else {
            let ip = Ipv6Repr { src_addr: Ipv6Address::from(LL), dst_addr: Ipv6Address::from(GL), next_header: IpProtocol::Icmpv6, payload_len: 12, hop_limit: 64 };
            e3_sink(Packet::new_ipv6(ip, IpPayload::Icmpv6(icmp)), n)
        };
        kani::cover!(r == 7, "reached");
        assert!(r == ident as usize, "prop:c10_x");
    }
    // @harness props=C10 cfg=KI6i tier=t to=300 mem=4 unwind=5 opts=nomem covers=1
    #[cfg(feature = "proto-ipv6")]
    #[kani::proof]
    pub(crate) fn e1() {
        e_case(1);
    }
    // @harness props=C10 cfg=KI6i tier=t to=300 mem=4 unwind=5 opts=nomem covers=1
    #[cfg(feature = "proto-ipv6")]
    #[kani::proof]
    pub(crate) fn e2() {
        e_case(2);
    }
    // @harness props=C10 cfg=KI6i tier=t to=300 mem=4 unwind=5 opts=nomem covers=1
    #[cfg(feature = "proto-ipv6")]
    #[kani::proof]
    pub(crate) fn e3() {
        e_case(3);
    }
    // @harness props=C10 cfg=KI6i tier=t to=300 mem=4 unwind=5 opts=nomem,fs512 covers=1
    #[cfg(feature = "proto-ipv6")]
    #[kani::proof]
    pub(crate) fn e3fs() {
        e_case(3);
    }

    #[cfg(feature = "proto-ipv6")]
    #[inline(never)]
    fn e1_ref(icmp: &Icmpv6Repr, n: usize) -> usize {
        match *icmp {
            Icmpv6Repr::EchoReply { ident, .. } => ident as usize,
            Icmpv6Repr::EchoRequest { .. } => junk_marker(n),
            Icmpv6Repr::Mld(_) => junk_marker(n) + 1,
            _ => junk_marker(n) + 2,
        }
    }
    // @harness props=C10 cfg=KI6i tier=t to=300 mem=4 unwind=5 opts=nomem covers=1
    #[cfg(feature = "proto-ipv6")]
    #[kani::proof]
    pub(crate) fn e0_local() {
        let data: [u8; 4] = kani::any();
        let ident: u16 = kani::any();
        let n: usize = kani::any();
        let icmp = Icmpv6Repr::EchoReply { ident, seq_no: 2, data: &data[..] };
        let r = match icmp {
            Icmpv6Repr::EchoReply { ident, .. } => ident as usize,
            Icmpv6Repr::EchoRequest { .. } => junk_marker(n),
            Icmpv6Repr::Mld(_) => junk_marker(n) + 1,
            _ => junk_marker(n) + 2,
        };
        kani::cover!(r == 7, "reached");
        assert!(r == ident as usize, "prop:c10_x");
    }
    // @harness props=C10 cfg=KI6i tier=t to=300 mem=4 unwind=5 opts=nomem covers=1
    #[cfg(feature = "proto-ipv6")]
    #[kani::proof]
    pub(crate) fn e0_ref() {
        let data: [u8; 4] = kani::any();
        let ident: u16 = kani::any();
        let n: usize = kani::any();
        let icmp = Icmpv6Repr::EchoReply { ident, seq_no: 2, data: &data[..] };
        let r = e1_ref(&icmp, n);
        kani::cover!(r == 7, "reached");
        assert!(r == ident as usize, "prop:c10_x");
    }
    // @harness props=C10 cfg=KI6i tier=t to=300 mem=4 unwind=5 opts=nomem covers=1
    #[cfg(feature = "proto-ipv6")]
    #[kani::proof]
    pub(crate) fn e0_size() {
        let a = core::mem::size_of::<Icmpv6Repr>();
        let b = core::mem::size_of::<IpPayload>();
        let c = core::mem::size_of::<Packet>();
        let d = core::mem::size_of::<NdiscRepr>();
        let e = core::mem::size_of::<MldRepr>();
        kani::cover!(true, "reached");
        assert!(a == 1 && b == 1 && c == 1 && d == 1 && e == 1, "prop:c10_sizes");
    }

    // @harness props=C10 cfg=KI6i tier=t to=600 mem=8 unwind=6 opts=nomem covers=1
    #[cfg(feature = "proto-ipv6")]
    #[kani::proof]
    pub(crate) fn m1_emit() {
        let data: [u8; 4] = kani::any();
        let ident: u16 = kani::any();
        let icmp = Icmpv6Repr::EchoReply { ident, seq_no: 2, data: &data[..] };
        let mut buf = [0u8; 12];
        icmp.emit(&Ipv6Address::from(LL), &Ipv6Address::from(GL), &mut Icmpv6Packet::new_unchecked(&mut buf[..]), &ChecksumCapabilities::default());
        kani::cover!(buf[4] == 7, "reached");
        assert!(get16(&buf, 4) == ident, "prop:c10_x");
    }
    // @harness props=C10 cfg=KI6i tier=t to=600 mem=8 unwind=6 opts=nomem covers=1
    #[cfg(feature = "proto-ipv6")]
    #[kani::proof]
    pub(crate) fn m2_emit_payload() {
        let data: [u8; 4] = kani::any();
        let ident: u16 = kani::any();
        let icmp = Icmpv6Repr::EchoReply { ident, seq_no: 2, data: &data[..] };
        let ip = Ipv6Repr { src_addr: Ipv6Address::from(LL), dst_addr: Ipv6Address::from(GL), next_header: IpProtocol::Icmpv6, payload_len: 12, hop_limit: 64 };
        let packet = Packet::new_ipv6(ip, IpPayload::Icmpv6(icmp));
        let mut buf = [0u8; 12];
        let mut caps = DeviceCapabilities::default();
        caps.max_transmission_unit = 1500;
        packet.emit_payload(&IpRepr::Ipv6(ip), &mut buf[..], &caps);
        kani::cover!(buf[4] == 7, "reached");
        assert!(get16(&buf, 4) == ident, "prop:c10_x");
    }

    // @harness props=C10 cfg=KI6i tier=t to=1200 mem=16 unwind=6 opts=nomem covers=1
    #[cfg(all(feature = "proto-ipv6", feature = "medium-ethernet", feature = "multicast"))]
    #[kani::proof]
    pub(crate) fn x4_mld_direct() {
        let caps = ChecksumCapabilities::default();
        let now = Instant::from_micros(NOW_US);
        let mut dev0 = NullDev { medium: Medium::Ethernet, mtu: MTU + 14, checksum: caps };
        let mut iface = Interface::new(Config::new(HardwareAddress::Ethernet(EthernetAddress(OWN_MAC))), &mut dev0, now);
        iface.inner.ip_addrs.push(IpCidr::new(IpAddress::Ipv6(Ipv6Address::from(LL)), 64)).unwrap();
        iface.inner.ip_addrs.push(IpCidr::new(IpAddress::Ipv6(Ipv6Address::from(GL)), 64)).unwrap();
        let mut group = [0u8; 16];
        group[0] = 0xff;
        group[1] = 0x02;
        group[14] = kani::any();
        group[15] = kani::any();
        let recs = [MldAddressRecordRepr::new(MldRecordType::ChangeToInclude, Ipv6Address::from(group))];
        let pkt = iface.inner.mldv2_report_packet(&recs[..]).unwrap();
        let mut tx = TxState::<96>::new();
        let r = iface.inner.dispatch_ip(CapTx { st: &mut tx }, PacketMeta::default(), pkt, &mut iface.fragmenter);
        kani::cover!(tx.frames == 1 && group[15] == 0xaa, "captured");
        crate::vassert!(r.is_ok() && tx.frames == 1 && tx.len0 == 90, "prop:c10_reply_handed_to_device_exactly_once");
        let f = &tx.buf0;
        check_eth6(f, &mcast_mac(&ALL_MLDV2));
        let plen = check_ipv6(f, 14, tx.len0, MTU, 0, &LL, &ALL_MLDV2);
        crate::vassert!(plen == 36, "prop:c10_ipv6_payload_length_matches_payload");
        crate::vassert!(sum1071(f, 62, 28, pseudo6(f, 14, 58, 28)) == 0xffff, "prop:c10_icmpv6_checksum_valid");
    }

    #[cfg(feature = "proto-ipv6")]
    fn m3_case<const B: usize>() {
        let data: [u8; 4] = kani::any();
        let ident: u16 = kani::any();
        let icmp = Icmpv6Repr::EchoReply { ident, seq_no: 2, data: &data[..] };
        let ip = Ipv6Repr { src_addr: Ipv6Address::from(LL), dst_addr: Ipv6Address::from(GL), next_header: IpProtocol::Icmpv6, payload_len: 12, hop_limit: 64 };
        let packet = Packet::new_ipv6(ip, IpPayload::Icmpv6(icmp));
        let mut buf = [0u8; B];
        let mut caps = DeviceCapabilities::default();
        caps.max_transmission_unit = 1500;
        packet.emit_payload(&IpRepr::Ipv6(ip), &mut buf[54..66], &caps);
        kani::cover!(buf[58] == 7, "reached");
        assert!(get16(&buf, 58) == ident, "prop:c10_x");
    }
    // @harness props=C10 cfg=KI6i tier=t to=900 mem=8 unwind=6 opts=nomem covers=1
    #[cfg(feature = "proto-ipv6")]
    #[kani::proof]
    pub(crate) fn m3a() {
        m3_case::<128>();
    }
    // @harness props=C10 cfg=KI6i tier=t to=900 mem=8 unwind=6 opts=nomem,fs200 covers=1
    #[cfg(feature = "proto-ipv6")]
    #[kani::proof]
    pub(crate) fn m3b() {
        m3_case::<128>();
    }
    // @harness props=C10 cfg=KI6i tier=t to=1500 mem=24 unwind=6 opts=nomem,fs80 covers=1
    #[cfg(feature = "proto-ipv6")]
    #[kani::proof]
    pub(crate) fn m3c() {
        m3_case::<66>();
    }

    // ------------------------------------------------------------------------------------------------ IGMP (IPv4)
    #[cfg(all(feature = "proto-ipv4", feature = "multicast", feature = "medium-ethernet"))]
    const OWN4: [u8; 4] = [192, 168, 1, 1];

    /// Ethernet + IPv4 header of an IGMP message (RFC 791, RFC 1112 6.4, RFC 2236 2): returns the IPv4 header length
    #[cfg(all(feature = "proto-ipv4", feature = "multicast", feature = "medium-ethernet"))]
    fn check_eth_ipv4_igmp(f: &[u8], flen: usize, dst: &[u8; 4]) -> usize {
        crate::vassert!(flen >= 14 + 20 + 8 && flen <= MTU + 14, "prop:c10_frame_fits_mtu");
        // RFC 1112 6.4: 01:00:5e + low 23 bits of the group address
        crate::vassert!(f[0] == 0x01 && f[1] == 0x00 && f[2] == 0x5e && f[3] == dst[1] & 0x7f && f[4] == dst[2] && f[5] == dst[3], "prop:c10_ethernet_destination_is_multicast_mapping_of_group");
        crate::vassert!(eq6(f, 6, &OWN_MAC), "prop:c10_ethernet_source_is_own_hardware_address");
        crate::vassert!(get16(f, 12) == 0x0800, "prop:c10_ethertype_matches_ip_version");
        crate::vassert!(f[14] >> 4 == 4, "prop:c10_ipv4_version");
        let ihl = ((f[14] & 0x0f) as usize) * 4;
        crate::vassert!(ihl >= 20 && 14 + ihl + 8 <= flen, "prop:c10_ipv4_header_length_within_frame");
        let total = get16(f, 16) as usize;
        crate::vassert!(total == flen - 14 && total == ihl + 8, "prop:c10_ipv4_total_length_matches_frame");
        crate::vassert!(get16(f, 20) & 0x3fff == 0, "prop:c10_unfragmented_packet_has_no_fragment_fields");
        crate::vassert!(f[22] == 1, "prop:c10_igmp_ttl_1");
        crate::vassert!(f[23] == 2, "prop:c10_ipv4_protocol_igmp");
        crate::vassert!(sum1071(f, 14, ihl, 0) == 0xffff, "prop:c10_ipv4_header_checksum_valid");
        crate::vassert!(f[26] == OWN4[0] && f[27] == OWN4[1] && f[28] == OWN4[2] && f[29] == OWN4[3], "prop:c10_source_is_own_unicast_address");
        crate::vassert!(f[30] == dst[0] && f[31] == dst[1] && f[32] == dst[2] && f[33] == dst[3], "prop:c10_igmp_destination");
        // no options, or exactly the router alert option (RFC 2113): anything else is not validated here
        crate::vassert!(ihl == 20 || (ihl == 24 && f[34] == 0x94 && f[35] == 4 && f[36] == 0 && f[37] == 0), "prop:c10_ipv4_options_well_formed");
        ihl
    }

    // ---- 3b. IGMPv2 membership report (RFC 2236) sent by multicast_egress after joining a group
    // @harness props=C10 cfg=KM4 tier=q to=900 mem=12 unwind=6 opts=nomem,fs300 covers=1 funcs=Interface::join_multicast_group;Interface::multicast_egress;InterfaceInner::igmp_report_packet;InterfaceInner::dispatch_ip;InterfaceInner::lookup_hardware_addr;Packet::emit_payload;wire::Ipv4Repr::emit;wire::IgmpRepr::emit bounds=Ethernet,_MTU_1500,_time_fixed,_tx_checksums_on;_own_192.168.1.1/24;_any_group_address_224.0.0.0/4_joined;_one_multicast_egress_pass;_device_accepts
    #[cfg(all(feature = "proto-ipv4", feature = "multicast", feature = "medium-ethernet"))]
    #[kani::proof]
    pub(crate) fn frame_wf_igmp_report() {
        let mut dev = crate::verif_dev::gdev::GDev { medium: Medium::Ethernet, mtu: MTU + 14, checksum: ChecksumCapabilities::default(), tx_ok: true };
        let now = Instant::from_micros(NOW_US);
        let mut iface = Interface::new(Config::new(HardwareAddress::Ethernet(EthernetAddress(OWN_MAC))), &mut dev, now);
        iface.update_ip_addrs(|a| {
            a.push(IpCidr::new(IpAddress::Ipv4(Ipv4Address::from_octets(OWN4)), 24)).unwrap();
        });
        let g: [u8; 4] = kani::any();
        kani::assume(g[0] >= 224 && g[0] <= 239);
        let joined = iface.join_multicast_group(Ipv4Address::from_octets(g));
        iface.multicast_egress(&mut dev);
        let cap = crate::verif_dev::gdev::captured();
        crate::vdump!("joined={:?} frames={} frame0={:02x?}", joined, cap.frames, &cap.buf0[..cap.len0]);
        kani::cover!(cap.frames == 1 && g[3] == 0xaa && g[1] >= 128, "report captured");
        crate::vassert!(joined.is_ok() && cap.frames == 1, "prop:c10_one_report_per_joined_group");
        let f = &cap.buf0;
        // RFC 2236 9: a report is sent to the group being reported
        let ihl = check_eth_ipv4_igmp(f, cap.len0, &g);
        let m = 14 + ihl;
        crate::vassert!(f[m] == 0x16 && f[m + 1] == 0, "prop:c10_igmp_v2_report_type_and_zero_max_resp");
        crate::vassert!(f[m + 4] == g[0] && f[m + 5] == g[1] && f[m + 6] == g[2] && f[m + 7] == g[3], "prop:c10_igmp_group_address");
        crate::vassert!(sum1071(f, m, 8, 0) == 0xffff, "prop:c10_igmp_checksum_valid");
    }
}
