// C16 — link-layer addressing on Ethernet: a unicast IP packet only ever goes to the hardware address learned
// for its next hop; on a miss nothing is sent to a guessed address, discovery is rate limited to one request per
// second, the cache is filled only from validated ARP / NDISC, socket data stays queued.
// Spliced into src/iface/interface/mod.rs (child of `iface::interface`).
//
// State: a real `Interface::new` on an Ethernet device, own addresses through `update_ip_addrs`, then
//   * neighbor cache: built as a separate object through `fill_with_expiration` / `limit_rate` and then assigned to
//     `inner.neighbor_cache`: n entries (n symbolic 0..=3, or fixed where the code under test itself fills) whose KEYS
//     ARE THREE FIXED DISTINCT ADDRESSES (two on-link hosts, one off-link) and whose hardware addresses, expiries and
//     the silent_until are symbolic.  Measured reason (DESIGN.md 3, harness hygiene): symbolic keys make the
//     LinearMap's length - and with it every later write offset inside the ~1.5 KB `Interface` object - symbolic, and
//     CBMC then runs out of 8 GB in propositional reduction (7 M variables for the set-up alone); with fixed keys all
//     offsets are concrete.  Nothing is lost for these harnesses: the cache treats keys opaquely (`Eq` only; all-keys
//     behaviour of lookup/fill/eviction is neighbor_cache.rs' subject), and the addresses that the code under test
//     looks up / learns (destination, gateways, ARP / NDISC sender) are fully symbolic, so they coincide with a key,
//     with an expired key, or with none.  The fields of `Cache` are private to `iface::neighbor`, so the cache is
//     observed through its API: `lookup(p, t)` for universally quantified (p, t) characterises the whole cache;
//   * routes: <= 2 symbolic routes through `routes_mut().update`;
//   * `now`: symbolic instant (microseconds) given to `Interface::new`.
// INV_nc (neighbor_cache.rs): expires_at <= now + 60 s, silent_until <= now + 1 s.
//
// Rate limit, one-step inductive argument (ghost L = instant of the latest ARP request / neighbor solicitation):
//   J:  silent_until >= L + 1 s.
//   A request is emitted at `now` only if `now >= silent_until` (asserted: prop:c16_request_only_when_not_silent), so
//   now - L >= 1 s; afterwards silent_until = now + 1 s = L' + 1 s (asserted: prop:c16_silent_until_set_after_request),
//   so J holds again.  Nothing else writes silent_until (only `limit_rate`, called only after a request; `flush`
//   keeps it: nc_rate_limit) and `now` never decreases, hence any two requests are >= 1 s apart.
//   `lookup_hw_addr_step` assumes J for a symbolic L and asserts both facts.
#[allow(dead_code, unused_imports, unused_variables, unused_mut, unused_assignments)]
mod v_iface_neighbor {
    use super::*;
    use crate::iface::SocketStorage;
    use crate::verif_common::*;
    use crate::verif_dev::{CapTx, NullDev, TxState};

    const T_MAX: i64 = 1i64 << 50; // microseconds
    const SEC: i64 = 1_000_000;

    /// capture buffer: IPv4 UDP frame 46, ARP 42; IPv6 UDP frame 66, neighbor solicitation 86
    #[cfg(not(feature = "proto-ipv6"))]
    const CAP: usize = 64;
    #[cfg(feature = "proto-ipv6")]
    const CAP: usize = 96;

    const OWN_MAC: EthernetAddress = EthernetAddress([0x02, 0x00, 0x00, 0x00, 0x00, 0x01]);
    #[cfg(feature = "proto-ipv4")]
    const OWN4: Ipv4Address = Ipv4Address::new(192, 168, 1, 1);
    #[cfg(feature = "proto-ipv4")]
    const OWN4B: Ipv4Address = Ipv4Address::new(10, 0, 0, 5);
    #[cfg(feature = "proto-ipv6")]
    const OWN6_LL: Ipv6Address = Ipv6Address::new(0xfe80, 0, 0, 0, 0, 0, 0, 1);
    #[cfg(feature = "proto-ipv6")]
    const OWN6_G: Ipv6Address = Ipv6Address::new(0x2001, 0xdb8, 0, 0, 0, 0, 0, 1);

    // ------------------------------------------------------------------ symbolic values
    #[cfg(feature = "proto-ipv4")]
    fn any_v4() -> IpAddress {
        let o: [u8; 4] = kani::any();
        IpAddress::Ipv4(Ipv4Address::from(o))
    }
    #[cfg(feature = "proto-ipv6")]
    fn any_v6() -> IpAddress {
        let o: [u8; 16] = kani::any();
        IpAddress::Ipv6(Ipv6Address::from(o))
    }
    fn any_addr() -> IpAddress {
        #[cfg(all(feature = "proto-ipv4", feature = "proto-ipv6"))]
        let a = if kani::any() { any_v4() } else { any_v6() };
        #[cfg(all(feature = "proto-ipv4", not(feature = "proto-ipv6")))]
        let a = any_v4();
        #[cfg(all(not(feature = "proto-ipv4"), feature = "proto-ipv6"))]
        let a = any_v6();
        a
    }
    fn any_unicast() -> IpAddress {
        let a = any_addr();
        kani::assume(a.is_unicast());
        a
    }
    fn any_hw() -> HardwareAddress {
        let o: [u8; 6] = kani::any();
        kani::assume(o[0] & 1 == 0);
        HardwareAddress::Ethernet(EthernetAddress(o))
    }
    fn any_instant(lo: i64, hi: i64) -> Instant {
        let t: i64 = kani::any();
        kani::assume(t >= lo && t <= hi);
        Instant::from_micros(t)
    }
    fn max_prefix(a: &IpAddress) -> u8 {
        match a {
            #[cfg(feature = "proto-ipv4")]
            IpAddress::Ipv4(_) => 32,
            #[cfg(feature = "proto-ipv6")]
            IpAddress::Ipv6(_) => 128,
        }
    }
    fn plus(t: Instant, us: i64) -> Instant {
        Instant::from_micros(t.total_micros() + us)
    }

    // ------------------------------------------------------------------ ghost model of the neighbor cache
    #[derive(Clone, Copy)]
    struct E {
        valid: bool,
        ip: IpAddress,
        hw: HardwareAddress,
        exp: Instant,
    }
    #[derive(Clone, Copy)]
    struct Model {
        e: [E; 3],
        n: usize,
        silent: Instant,
    }
    fn m_lookup(m: &Model, p: &IpAddress, t: Instant) -> NeighborAnswer {
        let mut r = None;
        if m.e[0].valid && m.e[0].ip == *p && t < m.e[0].exp {
            r = Some(m.e[0].hw);
        }
        if m.e[1].valid && m.e[1].ip == *p && t < m.e[1].exp {
            r = Some(m.e[1].hw);
        }
        if m.e[2].valid && m.e[2].ip == *p && t < m.e[2].exp {
            r = Some(m.e[2].hw);
        }
        match r {
            Some(h) => NeighborAnswer::Found(h),
            None if t < m.silent => NeighborAnswer::RateLimited,
            None => NeighborAnswer::NotFound,
        }
    }
    fn m_key_index(m: &Model, p: &IpAddress) -> Option<usize> {
        if m.e[0].valid && m.e[0].ip == *p {
            Some(0)
        } else if m.e[1].valid && m.e[1].ip == *p {
            Some(1)
        } else if m.e[2].valid && m.e[2].ip == *p {
            Some(2)
        } else {
            None
        }
    }

    /// the three fixed cache keys: two on-link hosts and one off-link address
    fn key(i: usize) -> IpAddress {
        #[cfg(all(feature = "proto-ipv4", not(feature = "proto-ipv6")))]
        let k = match i {
            0 => IpAddress::Ipv4(Ipv4Address::new(192, 168, 1, 2)),
            1 => IpAddress::Ipv4(Ipv4Address::new(192, 168, 1, 77)),
            _ => IpAddress::Ipv4(Ipv4Address::new(10, 1, 2, 3)),
        };
        #[cfg(feature = "proto-ipv6")]
        let k = match i {
            0 => IpAddress::Ipv6(Ipv6Address::new(0xfe80, 0, 0, 0, 0, 0, 0, 2)),
            1 => IpAddress::Ipv6(Ipv6Address::new(0x2001, 0xdb8, 0, 0, 0, 0, 0, 0x77)),
            _ => IpAddress::Ipv6(Ipv6Address::new(0x2001, 0xdb9, 0, 0, 0, 0, 0, 1)),
        };
        k
    }

    /// INV_nc cache contents at `now`: entries for key(0..n) with symbolic hardware addresses / expiries, symbolic
    /// silent_until; built on a separate object through the cache's public API (every fill at a concrete length)
    fn cache_with(n: usize, now: Instant) -> (NeighborCache, Model) {
        let mut c = NeighborCache::new();
        let hi = now.total_micros() + 60 * SEC;
        let e0 = E { valid: n >= 1, ip: key(0), hw: any_hw(), exp: any_instant(0, hi) };
        let e1 = E { valid: n >= 2, ip: key(1), hw: any_hw(), exp: any_instant(0, hi) };
        let e2 = E { valid: n >= 3, ip: key(2), hw: any_hw(), exp: any_instant(0, hi) };
        if n >= 1 {
            c.fill_with_expiration(e0.ip, e0.hw, e0.exp);
        }
        if n >= 2 {
            c.fill_with_expiration(e1.ip, e1.hw, e1.exp);
        }
        if n >= 3 {
            c.fill_with_expiration(e2.ip, e2.hw, e2.exp);
        }
        let silent = any_instant(0, now.total_micros() + SEC);
        if silent.total_micros() != 0 {
            c.limit_rate(plus(silent, -SEC));
        }
        (c, Model { e: [e0, e1, e2], n, silent })
    }
    /// n symbolic in 0..=3, each case built with a concrete n
    fn any_cache(now: Instant) -> (NeighborCache, Model) {
        let n = any_le(3);
        match n {
            0 => cache_with(0, now),
            1 => cache_with(1, now),
            2 => cache_with(2, now),
            _ => cache_with(3, now),
        }
    }

    /// the whole observable cache equals the model: for ALL addresses and instants (p, t symbolic)
    fn assert_cache_is(c: &NeighborCache, m: &Model, now: Instant) {
        let p = any_unicast();
        let t = any_instant(-1, T_MAX + 120 * SEC);
        assert!(c.lookup(&p, t) == m_lookup(m, &p, t), "prop:c16_cache_and_rate_limit_exactly_as_specified");
        assert!(m.silent <= plus(now, SEC), "inv:nc_silent_until_at_most_1s_ahead");
        let k = any_lt(3);
        let ek = m.e[k]; // copied out (references into a symbolically indexed element confuse CBMC's memcmp model)
        if ek.valid {
            assert!(ek.exp <= plus(now, 60 * SEC), "inv:nc_expiry_at_most_60s_ahead");
        }
    }

    /// model slot `e` is still stored with exactly its hardware address and expiry (observed through lookups)
    fn kept(c: &NeighborCache, e: &E) -> bool {
        c.lookup(&e.ip, plus(e.exp, -1)) == NeighborAnswer::Found(e.hw) && !c.lookup(&e.ip, e.exp).found()
    }

    /// post-model of `fill(ip, hw, now)` on model `m`, the evicted slot (if any) read off the real cache.
    /// Asserts the eviction rule: only from a full cache, only for a new key, only the oldest expiry, only one.
    fn model_after_fill(c: &NeighborCache, m: &Model, ip: IpAddress, hw: HardwareAddress, now: Instant) -> Model {
        let mut m2 = *m;
        let ne = E { valid: true, ip, hw, exp: plus(now, 60 * SEC) };
        match m_key_index(m, &ip) {
            Some(0) => m2.e[0] = ne,
            Some(1) => m2.e[1] = ne,
            Some(_) => m2.e[2] = ne,
            None if m.n < 3 => {
                if m.n == 0 {
                    m2.e[0] = ne;
                } else if m.n == 1 {
                    m2.e[1] = ne;
                } else {
                    m2.e[2] = ne;
                }
                m2.n = m.n + 1;
            }
            None => {
                let g0 = !kept(c, &m.e[0]);
                let g1 = !kept(c, &m.e[1]);
                let g2 = !kept(c, &m.e[2]);
                assert!(g0 as u8 + g1 as u8 + g2 as u8 <= 1, "prop:c16_eviction_removes_exactly_one_entry");
                let oldest = |e: &E| e.exp <= m.e[0].exp && e.exp <= m.e[1].exp && e.exp <= m.e[2].exp;
                if g0 {
                    assert!(oldest(&m.e[0]), "prop:c16_evicts_entry_with_oldest_expiry");
                    m2.e[0] = ne;
                } else if g1 {
                    assert!(oldest(&m.e[1]), "prop:c16_evicts_entry_with_oldest_expiry");
                    m2.e[1] = ne;
                } else if g2 {
                    assert!(oldest(&m.e[2]), "prop:c16_evicts_entry_with_oldest_expiry");
                    m2.e[2] = ne;
                } else {
                    assert!(false, "prop:c16_eviction_removes_exactly_one_entry");
                }
            }
        }
        m2
    }

    // ------------------------------------------------------------------ routes and the reference next hop
    /// a symbolic route.  IPv4: any prefix length 0..=32.  IPv6: the prefix length is the given constant (0 for the
    /// first, 48 for the second route of the table) - `Ipv6Address::mask` copies `prefix_len / 8` bytes, and a copy of
    /// symbolic size inside every `contains_addr` is what CBMC lowers worst (3 M program steps, out of memory); all
    /// prefix lengths 0..=128 are route_longest_prefix's subject (iface_route.rs).
    fn any_route(_pl6: u8) -> crate::iface::Route {
        let net = any_addr();
        #[cfg(not(feature = "proto-ipv6"))]
        let pl: u8 = kani::any();
        #[cfg(feature = "proto-ipv6")]
        let pl: u8 = _pl6;
        kani::assume(pl <= max_prefix(&net));
        let via = any_unicast();
        // a gateway is a neighbor: ::1 as gateway is a misconfiguration (the solicitation would be sourced from ::1)
        #[cfg(feature = "proto-ipv6")]
        kani::assume(via != IpAddress::Ipv6(Ipv6Address::LOCALHOST));
        crate::iface::Route {
            cidr: IpCidr::new(net, pl),
            via_router: via,
            preferred_until: if kani::any() { Some(any_instant(0, T_MAX)) } else { None },
            expires_at: if kani::any() { Some(any_instant(0, T_MAX)) } else { None },
        }
    }
    /// independent reference for "addr lies in net/pl": the top `pl` bits agree
    fn ref_contains(cidr: &IpCidr, a: &IpAddress) -> bool {
        let pl = cidr.prefix_len() as u32;
        match (cidr.address(), a) {
            #[cfg(feature = "proto-ipv4")]
            (IpAddress::Ipv4(n), IpAddress::Ipv4(a)) => {
                let x = u32::from_be_bytes(n.octets()) ^ u32::from_be_bytes(a.octets());
                pl == 0 || (x >> (32 - pl)) == 0
            }
            #[cfg(feature = "proto-ipv6")]
            (IpAddress::Ipv6(n), IpAddress::Ipv6(a)) => {
                let x = u128::from_be_bytes(n.octets()) ^ u128::from_be_bytes(a.octets());
                pl == 0 || (x >> (128 - pl)) == 0
            }
            #[allow(unreachable_patterns)]
            _ => false,
        }
    }
    /// route live at `now` (the code's convention: dropped when now > expires_at) and covering `a`
    fn usable(r: &crate::iface::Route, a: &IpAddress, now: Instant) -> bool {
        let live = match r.expires_at {
            Some(t) => now <= t,
            None => true,
        };
        live && ref_contains(&r.cidr, a)
    }
    /// own networks of the harness interface
    fn on_link(a: &IpAddress) -> bool {
        match a {
            #[cfg(feature = "proto-ipv4")]
            IpAddress::Ipv4(a) => {
                let o = a.octets();
                o[0] == 192 && o[1] == 168 && o[2] == 1
            }
            #[cfg(feature = "proto-ipv6")]
            IpAddress::Ipv6(a) => {
                let o = a.octets();
                let ll = o[0] == 0xfe && o[1] == 0x80 && o[2] == 0 && o[3] == 0 && o[4] == 0 && o[5] == 0 && o[6] == 0 && o[7] == 0;
                let gl = o[0] == 0x20 && o[1] == 0x01 && o[2] == 0x0d && o[3] == 0xb8 && o[4] == 0 && o[5] == 0 && o[6] == 0 && o[7] == 0;
                ll || gl
            }
        }
    }
    /// is `nh` an admissible next hop for `dst` (reference: dst itself if on-link, else gateway of a live matching
    /// route of maximal prefix length; None if neither)
    fn ref_next_hop_ok(nh: Option<IpAddress>, dst: &IpAddress, n: usize, r0: &crate::iface::Route, r1: &crate::iface::Route, now: Instant) -> bool {
        if on_link(dst) {
            return nh == Some(*dst);
        }
        let u0 = n >= 1 && usable(r0, dst, now);
        let u1 = n >= 2 && usable(r1, dst, now);
        match nh {
            None => !u0 && !u1,
            Some(g) => {
                let best0 = u0 && (!u1 || r0.cidr.prefix_len() >= r1.cidr.prefix_len());
                let best1 = u1 && (!u0 || r1.cidr.prefix_len() >= r0.cidr.prefix_len());
                (best0 && g == r0.via_router) || (best1 && g == r1.via_router)
            }
        }
    }

    // ------------------------------------------------------------------ frame inspection (flat capture buffers)
    fn eq_at<const N: usize>(buf: &[u8; CAP], off: usize, want: &[u8; N]) -> bool {
        // N is 4, 6 or (IPv6 builds only) 16: a concrete bound below the harness's unwind value
        let mut ok = true;
        let mut i = 0;
        while i < N {
            ok = ok && buf[off + i] == want[i];
            i += 1;
        }
        ok
    }
    fn be16(buf: &[u8; CAP], off: usize) -> u16 {
        ((buf[off] as u16) << 8) | buf[off + 1] as u16
    }
    fn hw_bytes(h: &HardwareAddress) -> [u8; 6] {
        match h {
            HardwareAddress::Ethernet(a) => a.0,
            #[allow(unreachable_patterns)]
            _ => [0xff; 6],
        }
    }

    /// the frame is the discovery request for `nh`: ARP request / neighbor solicitation, sender = this interface,
    /// target = nh, link-layer destination broadcast resp. the solicited-node multicast MAC.  It carries no datagram.
    fn check_request_frame(buf: &[u8; CAP], len: usize, nh: &IpAddress) {
        assert!(eq_at(buf, 6, &OWN_MAC.0), "prop:c16_request_sender_is_own_hardware_address");
        match nh {
            #[cfg(feature = "proto-ipv4")]
            IpAddress::Ipv4(t) => {
                assert!(len == 42, "prop:c16_miss_emits_only_an_arp_request");
                assert!(eq_at(buf, 0, &[0xff; 6]), "prop:c16_arp_request_is_broadcast");
                assert!(be16(buf, 12) == 0x0806, "prop:c16_miss_emits_only_an_arp_request");
                assert!(be16(buf, 14) == 1 && be16(buf, 16) == 0x0800 && buf[18] == 6 && buf[19] == 4, "prop:c16_arp_request_well_formed");
                assert!(be16(buf, 20) == 1, "prop:c16_miss_emits_only_an_arp_request");
                assert!(eq_at(buf, 22, &OWN_MAC.0), "prop:c16_request_sender_is_own_hardware_address");
                assert!(eq_at(buf, 28, &OWN4.octets()), "prop:c16_request_sender_is_own_protocol_address");
                assert!(eq_at(buf, 38, &t.octets()), "prop:c16_request_targets_the_next_hop");
            }
            #[cfg(feature = "proto-ipv6")]
            IpAddress::Ipv6(t) => {
                let o = t.octets();
                assert!(len == 86, "prop:c16_miss_emits_only_a_neighbor_solicitation");
                assert!(eq_at(buf, 0, &[0x33, 0x33, 0xff, o[13], o[14], o[15]]), "prop:c16_solicitation_to_solicited_node_multicast_mac");
                assert!(be16(buf, 12) == 0x86dd, "prop:c16_miss_emits_only_a_neighbor_solicitation");
                assert!(buf[14] >> 4 == 6 && be16(buf, 18) == 32 && buf[20] == 58 && buf[21] == 255, "prop:c16_solicitation_well_formed");
                let from_ll = eq_at(buf, 22, &OWN6_LL.octets());
                let from_g = eq_at(buf, 22, &OWN6_G.octets());
                assert!(from_ll || from_g, "prop:c16_request_sender_is_own_protocol_address");
                if o[0] == 0xfe && o[1] == 0x80 && o[2] == 0 && o[3] == 0 && o[4] == 0 && o[5] == 0 && o[6] == 0 && o[7] == 0 {
                    // a link-local neighbor is solicited from the link-local address (RFC 6724 scope rule)
                    assert!(from_ll, "prop:c16_request_sender_is_own_protocol_address");
                }
                assert!(eq_at(buf, 38, &[0xff, 0x02, 0, 0, 0, 0, 0, 0, 0, 0, 0, 0x01, 0xff, o[13], o[14], o[15]]), "prop:c16_solicitation_to_solicited_node_group");
                assert!(buf[54] == 135 && buf[55] == 0, "prop:c16_miss_emits_only_a_neighbor_solicitation");
                assert!(eq_at(buf, 62, &o), "prop:c16_request_targets_the_next_hop");
                assert!(buf[78] == 1 && buf[79] == 1 && eq_at(buf, 80, &OWN_MAC.0), "prop:c16_request_sender_is_own_hardware_address");
            }
        }
    }

    /// the frame carries the UDP datagram (src, dst, ports, 4 payload bytes) to hardware address `hw`
    fn check_ip_frame(buf: &[u8; CAP], len: usize, hw: &HardwareAddress, src: &IpAddress, dst: &IpAddress, sport: u16, dport: u16, data: &[u8; 4]) {
        assert!(eq_at(buf, 0, &hw_bytes(hw)), "prop:c16_frame_goes_to_learned_hardware_address_of_next_hop");
        assert!(eq_at(buf, 6, &OWN_MAC.0), "prop:c16_frame_source_is_own_hardware_address");
        let ip_off = 14;
        let udp_off;
        match (src, dst) {
            #[cfg(feature = "proto-ipv4")]
            (IpAddress::Ipv4(s), IpAddress::Ipv4(d)) => {
                assert!(len == 46 && be16(buf, 12) == 0x0800, "prop:c16_hit_emits_the_datagram");
                assert!(buf[14] == 0x45 && be16(buf, 16) == 32 && buf[23] == 17, "prop:c16_hit_emits_the_datagram");
                assert!(eq_at(buf, 26, &s.octets()) && eq_at(buf, 30, &d.octets()), "prop:c16_hit_emits_the_datagram");
                udp_off = 34;
            }
            #[cfg(feature = "proto-ipv6")]
            (IpAddress::Ipv6(s), IpAddress::Ipv6(d)) => {
                assert!(len == 66 && be16(buf, 12) == 0x86dd, "prop:c16_hit_emits_the_datagram");
                assert!(buf[14] >> 4 == 6 && be16(buf, 18) == 12 && buf[20] == 17, "prop:c16_hit_emits_the_datagram");
                assert!(eq_at(buf, 22, &s.octets()) && eq_at(buf, 38, &d.octets()), "prop:c16_hit_emits_the_datagram");
                udp_off = 54;
            }
            #[allow(unreachable_patterns)]
            _ => {
                assert!(false, "prop:c16_hit_emits_the_datagram");
                udp_off = 34;
            }
        }
        assert!(be16(buf, udp_off) == sport && be16(buf, udp_off + 2) == dport && be16(buf, udp_off + 4) == 12, "prop:c16_hit_emits_the_datagram");
        assert!(eq_at(buf, udp_off + 8, data), "prop:c16_datagram_payload_unmodified");
    }

    fn push_own_addrs(iface: &mut Interface, second: bool) {
        iface.update_ip_addrs(|a| {
            #[cfg(feature = "proto-ipv4")]
            {
                a.push(IpCidr::new(IpAddress::Ipv4(OWN4), 24)).unwrap();
                if second && cfg!(not(feature = "proto-ipv6")) {
                    a.push(IpCidr::new(IpAddress::Ipv4(OWN4B), 8)).unwrap();
                }
            }
            #[cfg(all(feature = "proto-ipv6", not(feature = "proto-ipv4")))]
            {
                a.push(IpCidr::new(IpAddress::Ipv6(OWN6_LL), 64)).unwrap();
                a.push(IpCidr::new(IpAddress::Ipv6(OWN6_G), 64)).unwrap();
            }
        });
    }

    macro_rules! eth_env {
        ($dev:ident, $iface:ident, $now:ident, $second:expr) => {
            let mut $dev = NullDev { medium: Medium::Ethernet, mtu: 1500, checksum: ChecksumCapabilities::ignored() };
            let $now = any_instant(0, T_MAX);
            let mut $iface = Interface::new(Config::new(HardwareAddress::Ethernet(OWN_MAC)), &mut $dev, $now);
            push_own_addrs(&mut $iface, $second);
        };
    }

    /// a unicast destination as `dispatch_ip` sees it: not multicast / unspecified / broadcast (limited or own subnet)
    fn any_unicast_dst(inner: &InterfaceInner) -> IpAddress {
        let d = any_unicast();
        kani::assume(!inner.is_broadcast(&d));
        d
    }

    // ------------------------------------------------------------------ 3. next hop -> hardware address, one step
    struct Out {
        hit: bool,
        a_sent: bool,
        b_sent: bool,
        b_pending: bool,
        no_route: bool,
        on_link: bool,
        two_live: bool,
        stale_key: bool,
        rate_limited: bool,
        others_expired: bool,
        resolved: bool,
        dst_cached_offlink: bool,
    }

    /// One step from an arbitrary state: `lookup_hardware_addr(dst)` (do_a) and / or `dispatch_ip(UDP datagram to dst)`
    /// (do_b, after A at the same instant when both).  do_a / do_b are constants at every call site.
    fn hw_step(do_a: bool, do_b: bool) -> Out {
        eth_env!(dev, iface, now, false);
        // A full cache and a full route table: for lookups an entry / route that is expired is indistinguishable from
        // one that is absent (expiries are symbolic, 0 included), so these subsume the smaller ones - and all container
        // lengths stay concrete (file header).
        let (c, mut m) = cache_with(3, now);
        iface.inner.neighbor_cache = c;
        let n = 2;
        let r0 = any_route(0);
        let r1 = any_route(48);
        iface.routes_mut().update(|v| {
            v.push(r0).unwrap();
            v.push(r1).unwrap();
        });
        // the code under test gets a small `self`: InterfaceInner and Fragmenter moved out of the Interface
        let mut inner = iface.inner;
        let mut fragmenter = iface.fragmenter;
        let dst = any_unicast_dst(&inner);
        // ghost: instant of the latest request so far, J: silent_until >= L + 1 s
        let has_last: bool = kani::any();
        let last = any_instant(0, now.total_micros());
        kani::assume(!has_last || m.silent >= plus(last, SEC));
        let m_pre = m;

        // the code's next hop is one the reference admits
        let nh = inner.route(&dst, now);
        assert!(ref_next_hop_ok(nh, &dst, n, &r0, &r1, now), "prop:c16_next_hop_is_destination_if_on_link_else_longest_prefix_live_gateway");
        assert!(inner.has_neighbor(&dst) == (nh.is_some() && m_lookup(&m, &nh.unwrap_or(dst), now).found()), "prop:c16_has_neighbor_iff_next_hop_resolved");

        let mut a_sent = false;
        let mut b_sent = false;
        let mut b_pending = false;
        let mut hit = false;
        // ---- step A: lookup_hardware_addr
        if do_a {
            let mut st = TxState::<CAP>::new();
            let res = inner.lookup_hardware_addr(CapTx { st: &mut st }, &dst, &mut fragmenter);
            let res = match res {
                Ok((h, _tok)) => Ok(h),
                Err(e) => Err(e),
            };
            match nh {
                None => {
                    assert!(res == Err(DispatchError::NoRoute), "prop:c16_no_route_reported");
                    assert!(st.frames == 0, "prop:c16_nothing_sent_without_route");
                }
                Some(nh) => match m_lookup(&m, &nh, now) {
                    NeighborAnswer::Found(h) => {
                        hit = true;
                        assert!(res == Ok(h), "prop:c16_hardware_address_is_cache_entry_of_next_hop");
                        assert!(st.frames == 0, "prop:c16_lookup_hit_sends_nothing");
                    }
                    NeighborAnswer::RateLimited => {
                        assert!(res == Err(DispatchError::NeighborPending), "prop:c16_miss_reports_neighbor_pending");
                        assert!(st.frames == 0, "prop:c16_request_only_when_not_silent");
                    }
                    NeighborAnswer::NotFound => {
                        assert!(res == Err(DispatchError::NeighborPending), "prop:c16_miss_reports_neighbor_pending");
                        assert!(st.frames == 1, "prop:c16_exactly_one_request_per_miss");
                        check_request_frame(&st.buf0, st.len0, &nh);
                        a_sent = true;
                        assert!(now >= m.silent, "prop:c16_request_only_when_not_silent");
                        assert!(!has_last || now.total_micros() - last.total_micros() >= SEC, "prop:c16_requests_at_least_1s_apart");
                        m.silent = plus(now, SEC);
                    }
                },
            }
            // an Ok answer is never a guess
            if let Ok(h) = res {
                assert!(nh.is_some() && m_lookup(&m, &nh.unwrap(), now) == NeighborAnswer::Found(h), "prop:c16_never_a_guessed_hardware_address");
            }
            // cache entries untouched; silent_until = now + 1 s exactly when a request went out
            // (= prop:c16_silent_until_set_after_request)
            assert_cache_is(&inner.neighbor_cache, &m, now);
        }

        // ---- step B: dispatch_ip of a UDP datagram to dst (at the same instant as A when both run)
        if do_b {
            let data: [u8; 4] = kani::any();
            let sport: u16 = kani::any();
            let dport: u16 = kani::any();
            let src = inner.get_source_address(&dst).unwrap();
            let ip = IpRepr::new(src, dst, IpProtocol::Udp, 8 + 4, 64);
            let packet = Packet::new(ip, IpPayload::Udp(UdpRepr { src_port: sport, dst_port: dport }, &data[..]));
            let mut st = TxState::<CAP>::new();
            let res = inner.dispatch_ip(CapTx { st: &mut st }, PacketMeta::default(), packet, &mut fragmenter);
            match nh {
                None => {
                    assert!(res == Err(DispatchError::NoRoute), "prop:c16_no_route_reported");
                    assert!(st.frames == 0, "prop:c16_nothing_sent_without_route");
                }
                Some(nh) => match m_lookup(&m, &nh, now) {
                    NeighborAnswer::Found(h) => {
                        hit = true;
                        assert!(res == Ok(()), "prop:c16_hit_emits_the_datagram");
                        assert!(st.frames == 1, "prop:c16_hit_emits_the_datagram");
                        check_ip_frame(&st.buf0, st.len0, &h, &src, &dst, sport, dport, &data);
                    }
                    NeighborAnswer::RateLimited => {
                        b_pending = true;
                        assert!(res == Err(DispatchError::NeighborPending), "prop:c16_miss_reports_neighbor_pending");
                        assert!(st.frames == 0, "prop:c16_no_ip_frame_while_next_hop_unresolved");
                    }
                    NeighborAnswer::NotFound => {
                        b_pending = true;
                        assert!(res == Err(DispatchError::NeighborPending), "prop:c16_miss_reports_neighbor_pending");
                        assert!(st.frames == 1, "prop:c16_no_ip_frame_while_next_hop_unresolved");
                        check_request_frame(&st.buf0, st.len0, &nh);
                        b_sent = true;
                        assert!(now >= m.silent && !a_sent, "prop:c16_request_only_when_not_silent");
                        assert!(!has_last || now.total_micros() - last.total_micros() >= SEC, "prop:c16_requests_at_least_1s_apart");
                        m.silent = plus(now, SEC);
                    }
                },
            }
            assert_cache_is(&inner.neighbor_cache, &m, now);
            // the fragmenter holds nothing (no datagram parked for a guessed address)
            #[cfg(feature = "_proto-fragmentation")]
            assert!(fragmenter.is_empty(), "prop:c16_nothing_parked_in_fragmenter");
        }
        if a_sent || b_sent {
            assert!(m.silent == plus(now, SEC), "prop:c16_silent_until_set_after_request");
        }
        Out {
            hit,
            a_sent,
            b_sent,
            b_pending,
            no_route: nh.is_none(),
            on_link: on_link(&dst),
            two_live: usable(&r0, &dst, now) && usable(&r1, &dst, now),
            stale_key: nh.is_some() && m_key_index(&m, &nh.unwrap_or(dst)).is_some(),
            rate_limited: nh.is_some() && m_lookup(&m_pre, &nh.unwrap_or(dst), now) == NeighborAnswer::RateLimited,
            others_expired: m.e[0].exp <= now && m.e[2].exp <= now,
            resolved: nh.is_some() && m_lookup(&m_pre, &nh.unwrap_or(dst), now).found(),
            dst_cached_offlink: !on_link(&dst) && m_lookup(&m_pre, &dst, now).found(),
        }
    }

    // @harness props=C16 cfg=KI4 tier=q to=900 mem=8 unwind=8 opts=nomem covers=8 funcs=InterfaceInner::lookup_hardware_addr;InterfaceInner::route;InterfaceInner::has_neighbor;InterfaceInner::in_same_network;InterfaceInner::dispatch_ethernet;route::Routes::lookup;neighbor::Cache::lookup;neighbor::Cache::limit_rate bounds=Ethernet_interface_192.168.1.1/24_(IPv6:_fe80::1/64_+_2001:db8::1/64);_neighbor_cache_full:_3_entries_with_fixed_keys_(2_on-link_hosts,_1_off-link),_any_hardware_addresses,_any_expiries_(expired_=_absent_for_lookups),_any_silent_until;_2_routes_(any_network,_any_unicast_gateway,_any_expiry;_expired_=_absent;_prefix_length_any_0..=32_for_IPv4,_fixed_/0_and_/48_for_IPv6);_any_unicast_destination_(all_address_bits_symbolic);_any_instant
    #[kani::proof]
    pub(crate) fn lookup_hw_addr_step() {
        let o = hw_step(true, false);
        kani::cover!(o.hit && !o.on_link && o.two_live, "hit through a gateway chosen among two live routes");
        kani::cover!(o.hit && o.on_link && o.others_expired, "on-link hit while the other entries are expired");
        kani::cover!(o.a_sent && !o.on_link, "request for a gateway sent");
        kani::cover!(o.a_sent && o.stale_key, "expired entry: not used, rediscovered");
        kani::cover!(o.rate_limited && !o.a_sent, "miss inside the silent second: nothing sent");
        kani::cover!(o.rate_limited && o.stale_key && !o.a_sent, "EXPIRED entry for the next hop while silent_until is in the future: no second request");
        kani::cover!(o.hit && o.dst_cached_offlink, "off-link destination that is itself in the cache: the gateway's entry is used, not the destination's");
        kani::cover!(o.no_route, "no route");
    }

    // @harness props=C16 cfg=KI4 tier=q to=900 mem=8 unwind=8 opts=nomem covers=8 funcs=InterfaceInner::dispatch_ip;InterfaceInner::lookup_hardware_addr;InterfaceInner::route;InterfaceInner::dispatch_ethernet;Packet::emit_payload;route::Routes::lookup;neighbor::Cache::lookup;neighbor::Cache::limit_rate bounds=as_lookup_hw_addr_step;_UDP_datagram_with_any_ports_and_4_payload_bytes,_source_chosen_by_get_source_address,_checksums_off,_MTU_1500
    #[kani::proof]
    pub(crate) fn dispatch_ip_neighbor_step() {
        let o = hw_step(false, true);
        kani::cover!(o.hit && !o.on_link && o.two_live, "datagram sent through a gateway chosen among two live routes");
        kani::cover!(o.hit && o.on_link && o.others_expired, "datagram sent on-link while the other entries are expired");
        kani::cover!(o.b_sent && !o.on_link, "request for a gateway sent instead of the datagram");
        kani::cover!(o.b_sent && o.stale_key, "expired entry: not used, rediscovered");
        kani::cover!(o.b_pending && !o.b_sent, "miss inside the silent second: nothing sent at all");
        kani::cover!(o.b_pending && !o.b_sent && o.stale_key, "EXPIRED entry for the next hop while silent_until is in the future: nothing sent");
        kani::cover!(o.hit && o.dst_cached_offlink, "off-link destination that is itself in the cache: sent to the gateway's hardware address");
        kani::cover!(o.no_route, "no route");
    }

    // IPv6: next-hop selection and resolution only (`route`, `has_neighbor`).  The steps themselves (lookup_hw_addr_step,
    // dispatch_ip_neighbor_step) do not fit under KI6: the solicitation built in lookup_hardware_addr and the datagram
    // travel by value through dispatch_ip, CBMC loses the `IpPayload` discriminant and encodes every emitter (hop-by-hop
    // options, MLD, TCP options) with all loops unrolled to the 18 that 16-byte address comparisons need: 3 M program
    // steps, more than 16 GB (measured; making `now` / `silent_until` constants does not prune the path either).
    // @harness props=C16 cfg=KI6 tier=q to=900 mem=12 unwind=18 opts=nomem covers=4 funcs=InterfaceInner::route;InterfaceInner::has_neighbor;InterfaceInner::in_same_network;route::Routes::lookup;neighbor::Cache::lookup bounds=Ethernet_interface_fe80::1/64_+_2001:db8::1/64;_neighbor_cache_full:_3_entries_with_fixed_keys_(fe80::2,_2001:db8::77,_2001:db9::1),_any_hardware_addresses,_any_expiries,_any_silent_until;_2_routes_(/0_and_/48,_any_network,_any_unicast_gateway,_any_expiry);_any_unicast_IPv6_destination;_any_instant;_lookup_hardware_addr_/_dispatch_ip_themselves_(solicitation_frame,_its_rate_limit,_frame_destination)_NOT_covered_for_IPv6
    #[kani::proof]
    pub(crate) fn next_hop_resolution_v6() {
        let o = hw_step(false, false);
        kani::cover!(o.resolved && !o.on_link && o.two_live, "resolved through a gateway chosen among two live routes");
        kani::cover!(o.resolved && o.on_link && o.others_expired, "on-link neighbor resolved while the other entries are expired");
        kani::cover!(!o.resolved && o.stale_key, "next hop known but expired: not resolved");
        kani::cover!(o.no_route, "no route");
    }

    // both calls at the same instant: the second one never sends a second request
    // @harness props=C16 cfg=KI4 tier=t to=1500 mem=8 unwind=8 opts=nomem covers=2 funcs=InterfaceInner::lookup_hardware_addr;InterfaceInner::dispatch_ip;neighbor::Cache::limit_rate bounds=as_lookup_hw_addr_step;_lookup_hardware_addr_then_dispatch_ip_of_a_UDP_datagram_to_the_same_destination_at_the_same_instant
    #[kani::proof]
    pub(crate) fn lookup_then_dispatch_same_instant() {
        let o = hw_step(true, true);
        assert!(!(o.a_sent && o.b_sent), "prop:c16_requests_at_least_1s_apart");
        kani::cover!(o.a_sent && o.b_pending && !o.b_sent, "second attempt in the same instant is silent");
        kani::cover!(o.hit, "both calls hit");
    }

    // ------------------------------------------------------------------ 4a. ARP fills the cache only when validated
    #[cfg(feature = "proto-ipv4")]
    struct ArpIn {
        frame: [u8; 42],
        hdr_ok: bool,
        oper: u16,
        sha: [u8; 6],
        spa: Ipv4Address,
        tpa: Ipv4Address,
    }
    #[cfg(feature = "proto-ipv4")]
    fn any_arp_frame() -> ArpIn {
        let arp: [u8; 28] = kani::any();
        let mut frame = [0u8; 42];
        let eth_dst: [u8; 6] = kani::any();
        let eth_src: [u8; 6] = kani::any();
        frame[0..6].copy_from_slice(&eth_dst);
        frame[6..12].copy_from_slice(&eth_src);
        frame[12] = 0x08;
        frame[13] = 0x06;
        frame[14..42].copy_from_slice(&arp);
        ArpIn {
            frame,
            hdr_ok: arp[0] == 0 && arp[1] == 1 && arp[2] == 0x08 && arp[3] == 0 && arp[4] == 6 && arp[5] == 4,
            oper: ((arp[6] as u16) << 8) | arp[7] as u16,
            sha: [arp[8], arp[9], arp[10], arp[11], arp[12], arp[13]],
            spa: Ipv4Address::new(arp[14], arp[15], arp[16], arp[17]),
            tpa: Ipv4Address::new(arp[24], arp[25], arp[26], arp[27]),
        }
    }
    /// address class "unicast" from the octets (reference, RFC 1122 3.2.1.3): not 0.0.0.0, not 224/4, not 255.255.255.255
    #[cfg(feature = "proto-ipv4")]
    fn v4_class_unicast(a: &Ipv4Address) -> bool {
        let o = a.octets();
        !(o == [0, 0, 0, 0]) && !(o[0] >= 224 && o[0] <= 239) && !(o == [255, 255, 255, 255])
    }
    #[cfg(feature = "proto-ipv4")]
    fn v4_in_own_nets(a: &Ipv4Address) -> bool {
        let o = a.octets();
        (o[0] == 192 && o[1] == 168 && o[2] == 1) || o[0] == 10
    }
    /// directed broadcast of one of the two own networks (192.168.1.0/24, 10.0.0.0/8)
    #[cfg(feature = "proto-ipv4")]
    fn v4_own_subnet_broadcast(a: &Ipv4Address) -> bool {
        let o = a.octets();
        o == [192, 168, 1, 255] || o == [10, 255, 255, 255]
    }

    /// one ARP packet against a cache holding n entries (n concrete: every write offset concrete, see file header)
    fn arp_step(n: usize) {
        #[cfg(feature = "proto-ipv4")]
        {
            eth_env!(dev, iface, now, true);
            let (c, m) = cache_with(n, now);
            // the code under test gets a small `self`: InterfaceInner moved out of the Interface (no 256-byte buffers behind it)
            let mut inner = iface.inner;
            inner.neighbor_cache = c;
            let a = any_arp_frame();
            let eth = EthernetFrame::new_unchecked(&a.frame[..]);
            let reply = inner.process_arp(now, &eth);
            let to_us = a.tpa == OWN4 || a.tpa == OWN4B;
            let valid = a.hdr_ok
                && to_us
                && (a.oper == 1 || a.oper == 2)
                && v4_class_unicast(&a.spa)
                && !v4_own_subnet_broadcast(&a.spa)
                && v4_in_own_nets(&a.spa)
                && a.sha[0] & 1 == 0;
            let spa = IpAddress::Ipv4(a.spa);
            let sha = HardwareAddress::Ethernet(EthernetAddress(a.sha));
            let m2 = if valid {
                // exactly (source protocol address -> source hardware address), good for 60 s from now
                assert!(inner.neighbor_cache.lookup(&spa, plus(now, 60 * SEC - 1)) == NeighborAnswer::Found(sha), "prop:c16_validated_arp_sender_learned");
                model_after_fill(&inner.neighbor_cache, &m, spa, sha, now)
            } else {
                m
            };
            // nothing else changes; an invalid packet changes nothing at all
            assert_cache_is(&inner.neighbor_cache, &m2, now);
            // replies: only to a validated request, addressed back to the sender
            match reply {
                None => assert!(!(valid && a.oper == 1), "prop:c16_validated_arp_request_answered"),
                Some(EthernetPacket::Arp(ArpRepr::EthernetIpv4 { operation, source_hardware_addr, source_protocol_addr, target_hardware_addr, target_protocol_addr })) => {
                    assert!(valid && a.oper == 1, "prop:c16_arp_reply_only_to_validated_request");
                    assert!(operation == ArpOperation::Reply && source_hardware_addr == OWN_MAC && source_protocol_addr == a.tpa, "prop:c16_arp_reply_from_own_addresses");
                    assert!(target_hardware_addr.0 == a.sha && target_protocol_addr == a.spa, "prop:c16_arp_reply_to_requester");
                }
                Some(_) => assert!(false, "prop:c16_arp_reply_only_to_validated_request"),
            }
            kani::cover!(valid && m_key_index(&m, &spa).is_none() && a.oper == 1, "validated new sender learned from a request (appended, or evicting the oldest of a full cache)");
            kani::cover!(valid && a.oper == 2 && m_key_index(&m, &spa).is_some(), "reply updates a known neighbor");
            kani::cover!(!valid && a.hdr_ok && to_us && (a.oper == 1 || a.oper == 2) && a.sha[0] & 1 == 0 && v4_class_unicast(&a.spa), "off-link sender rejected");
            kani::cover!(!valid && a.hdr_ok && to_us && a.oper == 1 && v4_in_own_nets(&a.spa) && a.sha[0] & 1 == 1, "multicast hardware address rejected");
            kani::cover!(!valid && a.hdr_ok && !to_us && v4_in_own_nets(&a.spa), "request for someone else ignored");
        }
    }

    // @harness props=C16 cfg=KI4 tier=q to=900 mem=8 unwind=8 opts=nomem covers=5 funcs=InterfaceInner::process_arp;ArpRepr::parse;neighbor::Cache::fill;InterfaceInner::in_same_network;InterfaceInner::has_ip_addr bounds=Ethernet_interface_with_192.168.1.1/24_and_10.0.0.5/8;_all_28_ARP_bytes_symbolic_(any_hardware/protocol_type,_lengths,_operation,_addresses);_neighbor_cache_of_3_slots_holding_2_entries_(fixed_keys_192.168.1.2,_192.168.1.77):_sender_known_or_new,_room_left_with_any_hardware_addresses,_expiries,_silent_until;_any_instant
    #[kani::proof]
    pub(crate) fn cache_fill_only_validated_arp() {
        arp_step(2);
    }

    // @harness props=C16 cfg=KI4 tier=q to=900 mem=8 unwind=8 opts=nomem covers=5 funcs=InterfaceInner::process_arp;ArpRepr::parse;neighbor::Cache::fill;InterfaceInner::in_same_network;InterfaceInner::has_ip_addr bounds=Ethernet_interface_with_192.168.1.1/24_and_10.0.0.5/8;_all_28_ARP_bytes_symbolic_(any_hardware/protocol_type,_lengths,_operation,_addresses);_neighbor_cache_of_3_slots_holding_3_entries_(fixed_keys_192.168.1.2,_192.168.1.77,_10.1.2.3):_full,_a_new_sender_evicts_the_oldest_with_any_hardware_addresses,_expiries,_silent_until;_any_instant
    #[kani::proof]
    pub(crate) fn cache_fill_only_validated_arp_full() {
        arp_step(3);
    }

    // The directed-broadcast address of an own subnet (192.168.1.255 on 192.168.1.0/24) is not a unicast sender
    // (`InterfaceInner::is_unicast_v4`, used for IPv4 sources in process_ipv4, says so), and process_arp must not learn it
    // (it tested only the address class `x_is_unicast` before the fix recorded in known_findings.json).
    // @harness props=C16 cfg=KI4 tier=q to=600 mem=8 unwind=8 opts=nomem covers=2 funcs=InterfaceInner::process_arp;InterfaceInner::is_unicast_v4 bounds=ARP_request/reply_for_192.168.1.1_from_sender_protocol_address_192.168.1.255_or_10.255.255.255,_any_sender_hardware_address;_neighbor_cache_holding_2_entries_(fixed_keys)
    #[kani::proof]
    pub(crate) fn finding_arp_subnet_broadcast_sender() {
        #[cfg(feature = "proto-ipv4")]
        {
            eth_env!(dev, iface, now, true);
            let (c, m) = cache_with(2, now);
            let mut inner = iface.inner;
            inner.neighbor_cache = c;
            let a = any_arp_frame();
            kani::assume(a.hdr_ok && v4_own_subnet_broadcast(&a.spa));
            // such an address is never a cache key beforehand (it cannot be learned legitimately)
            kani::assume(m_key_index(&m, &IpAddress::Ipv4(a.spa)).is_none());
            let eth = EthernetFrame::new_unchecked(&a.frame[..]);
            let reply = inner.process_arp(now, &eth);
            crate::vdump!("ARP oper={} sha={:?} spa={} tpa={} reply={}", a.oper, a.sha, a.spa, a.tpa, reply.is_some());
            crate::vdump!("lookup(spa, now) = {:?}", inner.neighbor_cache.lookup(&IpAddress::Ipv4(a.spa), now));
            assert!(!inner.neighbor_cache.lookup(&IpAddress::Ipv4(a.spa), now).found(), "prop:c16_non_unicast_arp_sender_not_learned");
            assert_cache_is(&inner.neighbor_cache, &m, now);
            kani::cover!(a.tpa == OWN4 && a.oper == 1, "request to us from the subnet broadcast address");
            kani::cover!(a.oper == 2 && a.tpa == OWN4B, "reply to our second address from the subnet broadcast address");
        }
    }

    // ------------------------------------------------------------------ 4b. NDISC fills the cache only when validated
    #[cfg(feature = "proto-ipv6")]
    fn any_raw_lladdr() -> Option<RawHardwareAddress> {
        if kani::any() {
            let b: [u8; 6] = kani::any();
            // Ethernet-only build: MAX_HARDWARE_ADDRESS_LEN = 6; a length != 6 does not parse
            // (each case copies a concrete number of bytes)
            let sel: u8 = kani::any();
            Some(match sel {
                0 => RawHardwareAddress::from_bytes(&b[..0]),
                1 => RawHardwareAddress::from_bytes(&b[..2]),
                2 => RawHardwareAddress::from_bytes(&b[..5]),
                _ => RawHardwareAddress::from_bytes(&b[..6]),
            })
        } else {
            None
        }
    }

    /// one NDISC message against a cache holding n entries (n concrete, see file header)
    fn ndisc_step(n: usize, known_sender: bool) {
        #[cfg(all(feature = "proto-ipv6", not(feature = "proto-ipv4")))]
        {
            eth_env!(dev, iface, now, true);
            let (c, m) = cache_with(n, now);
            let mut inner = iface.inner;
            inner.neighbor_cache = c;
            // known_sender: the sender is the (live or expired) first cache key, a constant - the fill then replaces in
            // place.  An arbitrary sender makes the fill append at an offset CBMC treats as symbolic inside the KI6
            // InterfaceInner (SLAAC + multicast state): 10 M variables, more than 16 GB (measured).
            let src = match if known_sender { key(0) } else { any_unicast() } {
                IpAddress::Ipv6(a) => a,
            };
            let dst = match any_addr() {
                IpAddress::Ipv6(a) => a,
            };
            let target = match any_addr() {
                IpAddress::Ipv6(a) => a,
            };
            let ip_repr = Ipv6Repr { src_addr: src, dst_addr: dst, next_header: IpProtocol::Icmpv6, payload_len: 32, hop_limit: 255 };
            let lladdr = any_raw_lladdr();
            let flags_bits: u8 = kani::any();
            let kind: u8 = kani::any();
            kani::assume(kind <= 4);
            let repr = match kind {
                0 => NdiscRepr::NeighborAdvert { flags: NdiscNeighborFlags::from_bits_truncate(flags_bits), target_addr: target, lladdr },
                1 => NdiscRepr::NeighborSolicit { target_addr: target, lladdr },
                2 => NdiscRepr::RouterSolicit { lladdr },
                3 => NdiscRepr::RouterAdvert {
                    hop_limit: kani::any(),
                    flags: NdiscRouterFlags::from_bits_truncate(flags_bits),
                    router_lifetime: Duration::from_secs(kani::any::<u16>() as u64),
                    reachable_time: Duration::from_millis(kani::any::<u32>() as u64),
                    retrans_time: Duration::from_millis(kani::any::<u32>() as u64),
                    lladdr,
                    mtu: None,
                    prefix_info: None,
                },
                _ => NdiscRepr::Redirect { target_addr: target, dest_addr: dst, lladdr, redirected_hdr: None },
            };
            let reply = inner.process_ndisc(ip_repr, repr);

            // reference: who may teach us an address
            let ll_ok = match lladdr {
                Some(raw) => raw.len() == 6 && raw.as_bytes()[0] & 1 == 0,
                None => false,
            };
            let to = target.octets();
            let target_unicast = to[0] != 0xff && to != [0u8; 16];
            let override_flag = flags_bits & 0b0010_0000 != 0;
            let srca = IpAddress::Ipv6(src);
            let known_live = m_lookup(&m, &srca, now).found();
            let fills = match kind {
                0 => ll_ok && target_unicast && (override_flag || !known_live),
                1 => ll_ok && target_unicast,
                _ => false,
            };
            let m2 = if fills {
                let raw = lladdr.unwrap();
                let b = raw.as_bytes();
                let hw = HardwareAddress::Ethernet(EthernetAddress([b[0], b[1], b[2], b[3], b[4], b[5]]));
                assert!(inner.neighbor_cache.lookup(&srca, plus(now, 60 * SEC - 1)) == NeighborAnswer::Found(hw), "prop:c16_validated_ndisc_sender_learned");
                model_after_fill(&inner.neighbor_cache, &m, srca, hw, now)
            } else {
                m
            };
            assert_cache_is(&inner.neighbor_cache, &m2, now);
            // a solicitation is answered only for an own target reached through its solicited-node group; the
            // advertisement goes back to the solicitor and names this interface's hardware address
            if let Some(p) = &reply {
                let lladdr_bad = match lladdr {
                    Some(raw) => !ll_ok,
                    None => false,
                };
                assert!(kind == 1 && (target == OWN6_LL || target == OWN6_G) && !lladdr_bad, "prop:c16_advertisement_only_for_own_target");
                assert!(p.ip_repr().dst_addr() == srca && p.ip_repr().src_addr() == IpAddress::Ipv6(target), "prop:c16_advertisement_to_solicitor");
            }
            kani::cover!(kind == 0 && fills && known_live && override_flag, "override advertisement replaces a live entry");
            kani::cover!(kind == 0 && !fills && ll_ok && target_unicast, "advertisement without override for a live entry ignored");
            kani::cover!(kind == 1 && fills && !known_live, "solicitation refreshes an expired entry with a new hardware address");
            kani::cover!(kind <= 1 && lladdr.is_some() && !ll_ok, "multicast or mis-sized link-layer address rejected");
            kani::cover!(kind == 1 && reply.is_some(), "solicitation answered");
            kani::cover!(kind >= 2 && lladdr.is_some(), "router solicitation / advertisement / redirect: cache untouched");
        }
    }

    // @harness props=C16 cfg=KI6 tier=q to=900 mem=8 unwind=18 opts=nomem covers=6 funcs=InterfaceInner::process_ndisc;RawHardwareAddress::parse;neighbor::Cache::fill;neighbor::Cache::lookup;InterfaceInner::has_solicited_node bounds=Ethernet_interface_fe80::1/64_+_2001:db8::1/64,_SLAAC_off;_symbolic_NdiscRepr_of_every_kind_(NA,_NS,_RS,_RA,_Redirect)_with_any_flags,_any_target,_link-layer_option_absent_or_of_length_0/2/5/6_with_any_bytes;_sender_=_fe80::2,_the_first_cache_key_(its_entry_live_or_expired);_any_destination;_hop_limit_255_(the_gate_in_process_icmpv6_is_not_covered);_neighbor_cache_holding_2_entries_(fixed_keys)_with_any_hardware_addresses,_expiries,_silent_until;_a_sender_not_yet_in_the_cache_is_NOT_covered_for_IPv6_(out_of_memory)
    #[kani::proof]
    pub(crate) fn cache_fill_only_validated_ndisc() {
        ndisc_step(2, true);
    }

    // Not covered: the hop-limit-255 gate of process_icmpv6 (RFC 4861 7.1.1/7.1.2), which is what keeps off-link
    // senders out.  A byte-template harness through process_icmpv6 (`ndisc_hop_limit_gate`) was cut: under KI6 the
    // option loop of NdiscRepr::parse is unrolled 17 times with every option parser (2.6 M program steps, > 16 GB).

    // ------------------------------------------------------------------ 5. socket data survives an unresolved neighbor
    // The real `Interface::socket_egress` on a SocketSet holding one UDP socket.
    // A device whose tokens carry no pointer: frames are captured in a static.  (A token holding `&mut TxState` that
    // travels through the `Option` returned by `Device::transmit` loses its points-to precision in CBMC.)
    #[allow(unsafe_code)]
    mod gdev {
        use super::*;
        pub(super) static mut G: TxState<CAP> = TxState { frames: 0, len0: 0, len1: 0, buf0: [0; CAP], buf1: [0; CAP] };
        pub(super) struct GTx;
        impl TxToken for GTx {
            fn consume<R, F: FnOnce(&mut [u8]) -> R>(self, len: usize, f: F) -> R {
                // single-threaded harness: the only reference to G alive
                let st: &mut TxState<CAP> = unsafe { &mut *core::ptr::addr_of_mut!(G) };
                let r;
                if st.frames == 0 {
                    st.len0 = len;
                    r = f(&mut st.buf0[..len]);
                } else {
                    st.len1 = len;
                    r = f(&mut st.buf1[..len]);
                }
                st.frames += 1;
                r
            }
        }
        pub(super) fn captured() -> &'static TxState<CAP> {
            unsafe { &*core::ptr::addr_of!(G) }
        }
        pub(super) struct GDev {
            pub(super) tx_ok: bool,
        }
        impl Device for GDev {
            type RxToken<'a> = crate::verif_dev::NoRx;
            type TxToken<'a> = GTx;
            fn capabilities(&self) -> DeviceCapabilities {
                let mut c = DeviceCapabilities::default();
                c.medium = Medium::Ethernet;
                c.max_transmission_unit = 1514;
                c.checksum = ChecksumCapabilities::ignored();
                c
            }
            fn receive(&mut self, _t: Instant) -> Option<(crate::verif_dev::NoRx, GTx)> {
                None
            }
            fn transmit(&mut self, _t: Instant) -> Option<GTx> {
                if self.tx_ok {
                    Some(GTx)
                } else {
                    None
                }
            }
        }
    }

    // @harness props=C16 cfg=KI4 tier=q to=900 mem=8 unwind=8 opts=nomem covers=5 funcs=Interface::socket_egress;udp::Socket::dispatch;udp::Socket::send_queue;InterfaceInner::dispatch_ip;InterfaceInner::lookup_hardware_addr;InterfaceInner::has_neighbor;socket_meta::Meta::egress_permitted;socket_meta::Meta::neighbor_missing;socket_meta::Meta::poll_at bounds=SocketSet_with_one_UDP_socket_holding_one_queued_4-byte_datagram_to_any_on-link_host_192.168.1.x_without_a_live_cache_entry;_neighbor_cache_holding_2_entries_(fixed_keys_192.168.1.2,_.77;_any_addresses,_expiries),_any_silent_until;_device_with_or_without_a_free_transmit_buffer;_one_egress_pass,_Meta_probed_at_any_instant_within_2_s,_then_the_socket's_next_dispatch_observed
    #[kani::proof]
    pub(crate) fn egress_keeps_data_when_neighbor_unknown() {
        #[cfg(all(feature = "proto-ipv4", feature = "socket-udp"))]
        {
            use crate::socket::udp as sudp;
            let mut dev = gdev::GDev { tx_ok: true };
            let now = any_instant(0, T_MAX);
            let mut iface = Interface::new(Config::new(HardwareAddress::Ethernet(OWN_MAC)), &mut dev, now);
            push_own_addrs(&mut iface, false);
            // 2 entries (fixed keys .2 and .77): the later fill of dst replaces one of them or appends, at concrete offsets
            let (c, m) = cache_with(2, now);
            iface.inner.neighbor_cache = c;
            let x: u8 = kani::any();
            kani::assume(x != 255);
            let dst = IpAddress::Ipv4(Ipv4Address::new(192, 168, 1, x));
            // the hardware address of dst is unknown: no entry, or an expired one
            kani::assume(!m_lookup(&m, &dst, now).found());

            let mut rx_meta = [sudp::PacketMetadata::EMPTY; 1];
            let mut rx_pay = [0u8; 8];
            let mut tx_meta = [sudp::PacketMetadata::EMPTY; 1];
            let mut tx_pay = [0u8; 8];
            let mut sock = sudp::Socket::new(
                sudp::PacketBuffer::new(&mut rx_meta[..], &mut rx_pay[..]),
                sudp::PacketBuffer::new(&mut tx_meta[..], &mut tx_pay[..]),
            );
            let lport: u16 = kani::any();
            let rport: u16 = kani::any();
            kani::assume(lport != 0 && rport != 0);
            sock.bind(lport).unwrap();
            let data: [u8; 4] = kani::any();
            sock.send_slice(&data, (dst, rport)).unwrap();
            let mut storage: [SocketStorage; 1] = [SocketStorage::EMPTY];
            let mut sockets = SocketSet::new(&mut storage[..]);
            let h = sockets.add(sock);

            // ---- pass 1: neighbor unknown
            dev.tx_ok = kani::any();
            let tx_ok1 = dev.tx_ok;
            let r1 = iface.socket_egress(&mut dev, &mut sockets);
            // the datagram (4 octets) is still queued, nothing claims to have been sent
            assert!(sockets.get::<sudp::Socket>(h).send_queue() == 4, "prop:c16_datagram_stays_queued_while_neighbor_unknown");
            assert!(r1 == PollResult::None, "prop:c16_unresolved_egress_reports_no_progress");
            // at most one frame, and it is the ARP request - never the datagram to a guessed address
            let frames1 = gdev::captured().frames;
            let arp_sent = frames1 == 1;
            assert!(frames1 <= 1, "prop:c16_at_most_one_arp_request");
            assert!(arp_sent == (tx_ok1 && now >= m.silent), "prop:c16_request_only_when_not_silent");
            if arp_sent {
                check_request_frame(&gdev::captured().buf0, gdev::captured().len0, &dst);
            }
            let mut m1 = m;
            if arp_sent {
                m1.silent = plus(now, SEC);
            }
            assert_cache_is(&iface.inner.neighbor_cache, &m1, now);
            // the socket waits for that neighbor: no egress before now + 1 s unless the neighbor is found
            {
                let item = sockets.items_mut().next().unwrap();
                let t2 = any_instant(now.total_micros(), now.total_micros() + 2 * SEC);
                let permitted = item.meta.egress_permitted(t2, |_| false);
                if tx_ok1 {
                    assert!(permitted == (t2 >= plus(now, SEC)), "prop:c16_socket_silenced_for_1s_while_neighbor_missing");
                    assert!(item.meta.poll_at(PollAt::Now, |_| false, now) == PollAt::Time(plus(now, SEC)), "prop:c16_silenced_socket_polled_at_end_of_silence");
                    assert!(item.meta.poll_at(PollAt::Now, |a| a == dst, now) == PollAt::Now, "prop:c16_socket_unsilenced_when_neighbor_found");
                    assert!(item.meta.poll_at(PollAt::Now, |a| a != dst, now) == PollAt::Time(plus(now, SEC)), "prop:c16_socket_waits_for_its_own_neighbor");
                } else {
                    // device exhausted: nothing was attempted, the socket is not silenced
                    assert!(permitted, "prop:c16_exhausted_device_does_not_silence_socket");
                }
            }

            // ---- the queued datagram is intact: what the socket hands to the interface next is the original datagram.
            // (Its way onto the wire once the neighbor is known is dispatch_ip_neighbor_step's hit case.  A second real
            // socket_egress pass that transmits does not fit: the datagram length read back from the socket's rings
            // is not a constant for CBMC's symbolic execution, which then also encodes dispatch_ip's fragmentation
            // branch and runs out of 8 GB - the same observation as udp_egress_exactly_once in iface_egress.rs.)
            let mut seen = false;
            let sock = sockets.get_mut::<sudp::Socket>(h);
            let r2: Result<(), ()> = sock.dispatch(&mut iface.inner, |_cx, _meta, (ip, udp, payload)| {
                seen = true;
                assert!(ip.src_addr() == IpAddress::Ipv4(OWN4) && ip.dst_addr() == dst && ip.next_header() == IpProtocol::Udp && ip.payload_len() == 12, "prop:c16_queued_datagram_unmodified");
                assert!(udp.src_port == lport && udp.dst_port == rport, "prop:c16_queued_datagram_unmodified");
                assert!(payload.len() == 4 && payload[0] == data[0] && payload[1] == data[1] && payload[2] == data[2] && payload[3] == data[3], "prop:c16_queued_datagram_unmodified");
                Ok(())
            });
            assert!(seen && r2.is_ok(), "prop:c16_datagram_stays_queued_while_neighbor_unknown");
            assert!(sock.send_queue() == 0, "prop:c16_datagram_leaves_queue_only_when_emitted");
            kani::cover!(arp_sent && m_key_index(&m, &dst).is_none(), "ARP request sent for a neighbor never seen");
            kani::cover!(!arp_sent && tx_ok1 && now < m.silent, "rate limited: no request, datagram kept");
            kani::cover!(m_key_index(&m, &dst).is_some() && arp_sent, "expired entry not used, rediscovered");
            kani::cover!(!tx_ok1, "device exhausted: nothing attempted, socket not silenced");
            kani::cover!(m.silent > now && m.silent.total_micros() - now.total_micros() == SEC, "request had just been sent");
        }
    }

    // @harness props=C16 kind=mustfail cfg=KI4 tier=q to=900 mem=8 unwind=8 opts=nomem
    #[kani::proof]
    pub(crate) fn iface_neighbor_must_fail() {
        eth_env!(dev, iface, now, false);
        let (c, m) = any_cache(now);
        iface.inner.neighbor_cache = c;
        let mut inner = iface.inner;
        let mut fragmenter = iface.fragmenter;
        let dst = any_unicast_dst(&inner);
        let mut st = TxState::<CAP>::new();
        let res = inner.lookup_hardware_addr(CapTx { st: &mut st }, &dst, &mut fragmenter);
        // false: a miss outside the silent second does send a request
        assert!(st.frames == 0, "prop:deliberately_false_lookup_never_sends");
    }
}
