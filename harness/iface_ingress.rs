// Interface ingress, IPv4 over raw-IP and Ethernet media: C11 (addressing / no replies to non-unicast),
// C10 (source legality of replies), C03 (no panic on arbitrary bytes), C08d (checksum failures have no effect).
// Spliced into src/iface/interface/mod.rs (child of iface::interface).
#[cfg(all(feature = "proto-ipv4", feature = "medium-ip"))]
#[allow(dead_code, unused_imports, unused_variables, unused_mut)]
mod v_iface_ingress {
    use super::*;
    use crate::phy::ChecksumCapabilities;
    #[cfg(feature = "socket-icmp")]
    use crate::socket::icmp;
    #[cfg(feature = "socket-tcp")]
    use crate::socket::tcp;
    #[cfg(feature = "socket-udp")]
    use crate::socket::udp;
    use crate::verif_common::*;
    use crate::verif_dev::{CapDev, CapTx, TxState};
    use crate::iface::{SocketHandle, SocketStorage};

    const OWN: Ipv4Address = Ipv4Address::new(192, 168, 1, 1);
    const OWN_U32: u32 = 0xc0a8_0101;
    const SUBNET_BCAST: u32 = 0xc0a8_01ff;
    const TCP_PORT: u16 = 80;
    const UDP_PORT: u16 = 53;

    fn is_mcast(a: u32) -> bool {
        (a >> 28) == 0xe
    }
    fn is_bcast(a: u32) -> bool {
        a == 0xffff_ffff || a == SUBNET_BCAST
    }
    fn is_loopback(a: u32) -> bool {
        (a >> 24) == 127
    }
    /// harness-side reference of "unicast source": not unspecified, multicast, limited or subnet broadcast
    fn is_unicast_src(a: u32) -> bool {
        a != 0 && !is_mcast(a) && !is_bcast(a)
    }

    fn put16(b: &mut [u8], o: usize, v: u16) {
        b[o] = (v >> 8) as u8;
        b[o + 1] = v as u8;
    }
    fn put32(b: &mut [u8], o: usize, v: u32) {
        b[o] = (v >> 24) as u8;
        b[o + 1] = (v >> 16) as u8;
        b[o + 2] = (v >> 8) as u8;
        b[o + 3] = v as u8;
    }

    /// RFC 791 header without options, not fragmented
    fn ipv4_header(b: &mut [u8], total_len: usize, proto: u8, src: u32, dst: u32) {
        b[0] = 0x45;
        b[1] = 0;
        put16(b, 2, total_len as u16);
        put16(b, 4, 0x1234);
        put16(b, 6, 0x4000);
        b[8] = 64;
        b[9] = proto;
        put16(b, 10, 0);
        put32(b, 12, src);
        put32(b, 16, dst);
    }

    // One socket per harness: with three sockets in the set CBMC ran out of memory (the `Socket` enum is moved by
    // byte copies and every downcast then explores every variant); cross-kind delivery is therefore outside the claim.
    macro_rules! env4_tcp {
        ($iface:ident, $sockets:ident, $h:ident, $medium:expr, $caps:expr) => {
            let mut dev = CapDev::<96>::new($medium, 1500, $caps);
            let now: i64 = kani::any();
            kani::assume(now >= 0 && now < (1i64 << 40));
            let hw = match $medium {
                #[cfg(feature = "medium-ethernet")]
                Medium::Ethernet => HardwareAddress::Ethernet(EthernetAddress([0x02, 0, 0, 0, 0, 1])),
                _ => HardwareAddress::Ip,
            };
            let mut $iface = Interface::new(Config::new(hw), &mut dev, Instant::from_millis(now));
            $iface.update_ip_addrs(|a| {
                a.push(IpCidr::new(IpAddress::Ipv4(OWN), 24)).unwrap();
            });
            let mut trx = [0u8; 8];
            let mut ttx = [0u8; 8];
            let mut tsock = tcp::Socket::new(tcp::SocketBuffer::new(&mut trx[..]), tcp::SocketBuffer::new(&mut ttx[..]));
            tsock.listen(TCP_PORT).unwrap();
            let mut storage = [SocketStorage::EMPTY];
            let mut $sockets = SocketSet::new(&mut storage[..]);
            let $h = $sockets.add(tsock);
        };
    }
    macro_rules! env4_udp {
        ($iface:ident, $sockets:ident, $h:ident, $medium:expr, $caps:expr) => {
            let mut dev = CapDev::<96>::new($medium, 1500, $caps);
            let now: i64 = kani::any();
            kani::assume(now >= 0 && now < (1i64 << 40));
            let hw = match $medium {
                #[cfg(feature = "medium-ethernet")]
                Medium::Ethernet => HardwareAddress::Ethernet(EthernetAddress([0x02, 0, 0, 0, 0, 1])),
                _ => HardwareAddress::Ip,
            };
            let mut $iface = Interface::new(Config::new(hw), &mut dev, Instant::from_millis(now));
            $iface.update_ip_addrs(|a| {
                a.push(IpCidr::new(IpAddress::Ipv4(OWN), 24)).unwrap();
            });
            let mut urm = [udp::PacketMetadata::EMPTY; 2];
            let mut urp = [0u8; 16];
            let mut utm = [udp::PacketMetadata::EMPTY; 2];
            let mut utp = [0u8; 16];
            let mut usock = udp::Socket::new(udp::PacketBuffer::new(&mut urm[..], &mut urp[..]), udp::PacketBuffer::new(&mut utm[..], &mut utp[..]));
            usock.bind(UDP_PORT).unwrap();
            let mut storage = [SocketStorage::EMPTY];
            let mut $sockets = SocketSet::new(&mut storage[..]);
            let $h = $sockets.add(usock);
        };
    }
    macro_rules! env4_icmp {
        ($iface:ident, $sockets:ident, $h:ident, $medium:expr, $caps:expr) => {
            let mut dev = CapDev::<96>::new($medium, 1500, $caps);
            let now: i64 = kani::any();
            kani::assume(now >= 0 && now < (1i64 << 40));
            let hw = match $medium {
                #[cfg(feature = "medium-ethernet")]
                Medium::Ethernet => HardwareAddress::Ethernet(EthernetAddress([0x02, 0, 0, 0, 0, 1])),
                _ => HardwareAddress::Ip,
            };
            let mut $iface = Interface::new(Config::new(hw), &mut dev, Instant::from_millis(now));
            $iface.update_ip_addrs(|a| {
                a.push(IpCidr::new(IpAddress::Ipv4(OWN), 24)).unwrap();
            });
            let mut irm = [icmp::PacketMetadata::EMPTY; 2];
            let mut irp = [0u8; 32];
            let mut itm = [icmp::PacketMetadata::EMPTY; 2];
            let mut itp = [0u8; 32];
            let mut isock = icmp::Socket::new(icmp::PacketBuffer::new(&mut irm[..], &mut irp[..]), icmp::PacketBuffer::new(&mut itm[..], &mut itp[..]));
            isock.bind(icmp::Endpoint::Ident(0x1234)).unwrap();
            let mut storage = [SocketStorage::EMPTY];
            let mut $sockets = SocketSet::new(&mut storage[..]);
            let $h = $sockets.add(isock);
        };
    }

    #[cfg(feature = "socket-tcp")]
    fn tcp_untouched(sockets: &SocketSet, th: SocketHandle) -> bool {
        let t = sockets.get::<tcp::Socket>(th);
        t.state() == tcp::State::Listen && t.remote_endpoint().is_none() && t.local_endpoint().is_none()
    }
    #[cfg(feature = "socket-udp")]
    fn udp_untouched(sockets: &SocketSet, uh: SocketHandle) -> bool {
        !sockets.get::<udp::Socket>(uh).can_recv()
    }

    /// source of a reply must be one of the interface's own unicast addresses
    fn reply_src_legal(p: &Packet) -> bool {
        match p.ip_repr() {
            IpRepr::Ipv4(r) => r.src_addr == OWN,
            #[allow(unreachable_patterns)]
            _ => false,
        }
    }
    #[cfg(feature = "socket-tcp")]
    fn reply_is_tcp_rst(p: &Packet) -> bool {
        match p.payload() {
            IpPayload::Tcp(t) => t.control == TcpControl::Rst,
            _ => false,
        }
    }
    fn reply_is_icmp_error(p: &Packet) -> bool {
        match p.payload() {
            IpPayload::Icmpv4(Icmpv4Repr::DstUnreachable { .. }) | IpPayload::Icmpv4(Icmpv4Repr::TimeExceeded { .. }) => true,
            _ => false,
        }
    }

    // @harness props=C11,C10:t cfg=KI4 tier=q to=1500 mem=12 unwind=8 opts=nomem covers=4 funcs=InterfaceInner::process_ip;InterfaceInner::process_ipv4;InterfaceInner::process_tcp;tcp::Socket::accepts;tcp::Socket::process;tcp::Socket::rst_reply bounds=raw-IP_medium;_own_address_192.168.1.1/24;_any_IPv4_source_and_destination;_any_ports,_flags,_seq/ack;_socket_set:_one_TCP_listener_on_port_80
    #[cfg(feature = "socket-tcp")]
    #[kani::proof]
    pub(crate) fn ipv4_addr_tcp() {
        env4_tcp!(iface, sockets, th, Medium::Ip, ChecksumCapabilities::ignored());
        let src: u32 = kani::any();
        let dst: u32 = kani::any();
        let sport: u16 = kani::any();
        let dport: u16 = kani::any();
        let flags: u8 = kani::any();
        kani::assume(flags & 0xc0 == 0);
        let mut b = [0u8; 40];
        ipv4_header(&mut b, 40, 6, src, dst);
        put16(&mut b, 20, sport);
        put16(&mut b, 22, dport);
        put32(&mut b, 24, kani::any());
        put32(&mut b, 28, kani::any());
        b[32] = 0x50;
        b[33] = flags;
        put16(&mut b, 34, kani::any());
        let reply = iface.inner.process_ip(&mut sockets, PacketMeta::default(), &b[..], &mut iface.fragments);
        let untouched = tcp_untouched(&sockets, th);
        let own = dst == OWN_U32;
        let rst_in = flags & 0x04 != 0;
        if !own {
            // (f) broadcast / multicast / loopback / foreign destinations never change a TCP socket
            crate::vassert!(untouched, "prop:c11_tcp_to_non_own_destination_changes_no_socket");
        }
        if !own && !is_bcast(dst) && dst != 0xe000_0001 {
            // (b) not addressed to the interface at all (foreign unicast, unjoined multicast, loopback): silence
            crate::vassert!(reply.is_none(), "prop:c11_foreign_destination_not_answered");
        }
        if dport != TCP_PORT {
            crate::vassert!(untouched, "prop:c11_socket_only_receives_matching_endpoint");
        }
        if let Some(p) = &reply {
            // (d) never a reset/error towards or because of non-unicast addresses; (e) never answer a reset
            crate::vassert!(!(reply_is_tcp_rst(p) || reply_is_icmp_error(p)) || (own && is_unicast_src(src)), "prop:c11_no_rst_or_error_for_non_unicast");
            crate::vassert!(!rst_in, "prop:c11_no_reply_to_rst");
            crate::vassert!(reply_src_legal(p), "prop:c10_reply_source_is_own_unicast_address");
            match p.ip_repr() {
                IpRepr::Ipv4(r) => assert!(r.dst_addr == Ipv4Address::from_bits(src), "prop:c10_reply_goes_to_sender"),
                #[allow(unreachable_patterns)]
                _ => {}
            }
        }
        kani::cover!(!untouched && own, "SYN to own address accepted by the listener");
        kani::cover!(reply.is_some() && own && dport != TCP_PORT, "RST for a closed port");
        kani::cover!(reply.is_none() && is_bcast(dst) && dport == TCP_PORT && flags == 0x02, "SYN to broadcast");
        kani::cover!(reply.is_none() && is_mcast(dst), "segment to multicast");
    }

    // @harness props=C11,C10,C09 cfg=KI4 tier=q to=900 mem=8 unwind=10 opts=nomem covers=4 funcs=InterfaceInner::process_ip;InterfaceInner::process_ipv4;InterfaceInner::process_udp;udp::Socket::accepts;udp::Socket::process;InterfaceInner::icmpv4_reply bounds=raw-IP_medium;_own_address_192.168.1.1/24;_any_IPv4_source_and_destination;_any_ports;_4_payload_bytes
    #[cfg(feature = "socket-udp")]
    #[kani::proof]
    pub(crate) fn ipv4_addr_udp() {
        env4_udp!(iface, sockets, uh, Medium::Ip, ChecksumCapabilities::ignored());
        let src: u32 = kani::any();
        let dst: u32 = kani::any();
        let sport: u16 = kani::any();
        let dport: u16 = kani::any();
        let pl: [u8; 4] = kani::any();
        let mut b = [0u8; 32];
        ipv4_header(&mut b, 32, 17, src, dst);
        put16(&mut b, 20, sport);
        put16(&mut b, 22, dport);
        put16(&mut b, 24, 12);
        put16(&mut b, 26, 0);
        b[28] = pl[0];
        b[29] = pl[1];
        b[30] = pl[2];
        b[31] = pl[3];
        let reply = iface.inner.process_ip(&mut sockets, PacketMeta::default(), &b[..], &mut iface.fragments);
        let own = dst == OWN_U32;
        let addressed = own || is_bcast(dst) || dst == 0xe000_0001;
        let delivered = !udp_untouched(&sockets, uh);
        if !addressed {
            crate::vassert!(!delivered && reply.is_none(), "prop:c11_foreign_destination_not_delivered_or_answered");
        }
        if delivered {
            crate::vassert!(dport == UDP_PORT && addressed, "prop:c11_socket_only_receives_matching_endpoint");
            crate::vassert!(reply.is_none(), "prop:c09_delivered_datagram_not_answered");
            // exactly one datagram, whole, with the right metadata
            let s = sockets.get_mut::<udp::Socket>(uh);
            let mut buf = [0u8; 8];
            let (n, meta) = s.recv_slice(&mut buf[..]).unwrap();
            crate::vassert!(n == 4 && buf[0] == pl[0] && buf[1] == pl[1] && buf[2] == pl[2] && buf[3] == pl[3], "prop:c09_delivered_payload_exact");
            crate::vassert!(meta.endpoint.port == sport && meta.endpoint.addr == IpAddress::Ipv4(Ipv4Address::from_bits(src)), "prop:c09_delivered_source_metadata");
            crate::vassert!(meta.local_address == Some(IpAddress::Ipv4(Ipv4Address::from_bits(dst))), "prop:c09_delivered_destination_metadata");
            crate::vassert!(!s.can_recv(), "prop:c09_delivered_exactly_once");
        } else if dport == UDP_PORT && addressed && (is_unicast_src(src) || src == 0) {
            crate::vassert!(false, "prop:c09_valid_datagram_for_bound_socket_delivered");
        }
        if let Some(p) = &reply {
            crate::vassert!(own && is_unicast_src(src), "prop:c11_no_rst_or_error_for_non_unicast");
            crate::vassert!(reply_is_icmp_error(p), "prop:c11_udp_reply_is_port_unreachable_only");
            crate::vassert!(reply_src_legal(p), "prop:c10_reply_source_is_own_unicast_address");
        }
        kani::cover!(delivered && own, "unicast datagram delivered");
        kani::cover!(delivered && is_bcast(dst), "broadcast datagram delivered");
        kani::cover!(reply.is_some(), "port unreachable sent");
        kani::cover!(!delivered && reply.is_none() && is_bcast(dst) && dport != UDP_PORT, "broadcast to closed port: silence");
    }

    // @harness props=C11,C10,C03 cfg=KI4 tier=q to=900 mem=8 unwind=10 opts=nomem covers=3 funcs=InterfaceInner::process_ip;InterfaceInner::process_ipv4;InterfaceInner::process_icmpv4;InterfaceInner::icmpv4_reply;icmp::Socket::accepts_v4;icmp::Socket::process_v4 bounds=raw-IP_medium;_own_address_192.168.1.1/24;_any_IPv4_source_and_destination;_any_ICMP_type/code/ident/seq;_4_data_bytes
    #[cfg(feature = "socket-icmp")]
    #[kani::proof]
    pub(crate) fn ipv4_addr_icmp() {
        env4_icmp!(iface, sockets, ih, Medium::Ip, ChecksumCapabilities::ignored());
        let src: u32 = kani::any();
        let dst: u32 = kani::any();
        let ty: u8 = kani::any();
        let code: u8 = kani::any();
        let mut b = [0u8; 32];
        ipv4_header(&mut b, 32, 1, src, dst);
        b[20] = ty;
        b[21] = code;
        put16(&mut b, 22, 0);
        put16(&mut b, 24, kani::any());
        put16(&mut b, 26, kani::any());
        put32(&mut b, 28, kani::any());
        let reply = iface.inner.process_ip(&mut sockets, PacketMeta::default(), &b[..], &mut iface.fragments);
        let own = dst == OWN_U32;
        let addressed = own || is_bcast(dst) || dst == 0xe000_0001;
        if !addressed {
            crate::vassert!(reply.is_none(), "prop:c11_foreign_destination_not_answered");
            crate::vassert!(!sockets.get::<icmp::Socket>(ih).can_recv(), "prop:c11_foreign_destination_not_delivered");
        }
        if let Some(p) = &reply {
            // only echo requests are answered, never ICMP errors, and never with an error
            crate::vassert!(ty == 8 && code == 0, "prop:c11_only_echo_request_answered");
            crate::vassert!(!reply_is_icmp_error(p) && !reply_is_tcp_rst(p), "prop:c11_no_error_in_answer_to_icmp");
            crate::vassert!(is_unicast_src(src), "prop:c11_no_reply_to_non_unicast_source");
            crate::vassert!(reply_src_legal(p), "prop:c10_reply_source_is_own_unicast_address");
            crate::vassert!(!is_mcast(dst), "prop:c11_multicast_echo_not_answered");
        }
        if ty == 8 && code == 0 && own && is_unicast_src(src) {
            crate::vassert!(reply.is_some(), "prop:c03_echo_request_to_own_address_answered");
        }
        kani::cover!(reply.is_some() && own, "echo reply");
        kani::cover!(reply.is_some() && is_bcast(dst), "echo reply to a broadcast ping");
        kani::cover!(reply.is_none() && ty == 3, "incoming ICMP error ignored");
    }

    // C03, raw-IP medium: arbitrary bytes as an IPv4 packet never panic, and whatever is answered comes from a legal
    // source.  One harness per protocol octet / header form: with the protocol, the header length and the fragment
    // fields all symbolic in one harness the symbolic execution explores every upper-layer parser for every form and
    // ran out of 8 GB (also with a single socket type).  In every harness the type-of-service, total length, ident,
    // source address and all octets after the header are free (a version with every header octet free as well - type of
    // service, lengths, ident, TTL, destination - ran out of 8 GB for every protocol, also with memory checks off).
    #[cfg(feature = "socket-tcp")]
    fn ipv4_free_case<const N: usize>(proto: Option<u8>, fragment: bool, options: bool) {
        env4_tcp!(iface, sockets, th, Medium::Ip, ChecksumCapabilities::ignored());
        // IP header: to the own address from any source (the address classes are ipv4_addr_*'s subject); type of
        // service, ident and TTL are not looked at by the stack and stay concrete.  Everything after the header free.
        let mut b: [u8; N] = kani::any();
        let src: u32 = kani::any();
        let hl = if options { 24 } else { 20 };
        let pr = match proto {
            Some(p) => p,
            None => b[9],
        };
        let (f6, f7) = (b[6], b[7]);
        let opt = [b[20], b[21], b[22], b[23]];
        ipv4_header(&mut b, N, pr, src, OWN_U32);
        if options {
            b[0] = 0x46;
            b[20] = opt[0];
            b[21] = opt[1];
            b[22] = opt[2];
            b[23] = opt[3];
        }
        if fragment {
            // any flags; fragment offset 0..=3 units of 8 octets (a fully symbolic offset into the 256-octet
            // reassembly buffer ran out of 12 GB; arbitrary offsets incl. beyond the buffer are decided by C12's
            // ipv4_reasm_process_one_* and ipv4_reasm_step_* harnesses)
            b[6] = f6 & 0xe0;
            b[7] = f7 & 0x03;
        }
        let reply = iface.inner.process_ip(&mut sockets, PacketMeta::default(), &b[..], &mut iface.fragments);
        kani::cover!(reply.is_some(), "a reply was produced");
        if let Some(p) = &reply {
            crate::vassert!(reply_src_legal(p), "prop:c10_reply_source_is_own_unicast_address");
        }
    }

    // @harness props=C03,C10 cfg=KI4t tier=q to=1200 mem=12 unwind=10 opts=nomem covers=1 funcs=InterfaceInner::process_ip;InterfaceInner::process_ipv4;InterfaceInner::process_tcp;InterfaceInner::process_icmpv4;InterfaceInner::icmpv4_reply;PacketAssemblerSet::get;PacketAssembler::add bounds=raw-IP_medium,_one_listening_TCP_socket;_32-octet_(TCP:_44-octet)_packet_to_the_own_address_from_any_source,_every_octet_after_the_IP_header_free;_protocol_6_(TCP):_every_TCP_header_octet_free;_not_a_fragment;_no_IP_options
    #[cfg(feature = "socket-tcp")]
    #[kani::proof]
    pub(crate) fn ipv4_bytes_free() {
        ipv4_free_case::<44>(Some(6), false, false);
    }

    // @harness props=C03,C10 cfg=KI4t tier=q to=900 mem=8 unwind=10 opts=nomem covers=1 funcs=InterfaceInner::process_ip;InterfaceInner::process_ipv4;InterfaceInner::process_tcp;InterfaceInner::process_icmpv4;InterfaceInner::icmpv4_reply;PacketAssemblerSet::get;PacketAssembler::add bounds=raw-IP_medium,_one_listening_TCP_socket;_32-octet_(TCP:_44-octet)_packet_to_the_own_address_from_any_source,_every_octet_after_the_IP_header_free;_protocol_17_(UDP,_no_UDP_socket:_port_unreachable_path);_not_a_fragment;_no_IP_options
    #[cfg(feature = "socket-tcp")]
    #[kani::proof]
    pub(crate) fn ipv4_bytes_free_udp() {
        ipv4_free_case::<32>(Some(17), false, false);
    }

    // @harness props=C03,C10 cfg=KI4t tier=q to=900 mem=8 unwind=10 opts=nomem covers=1 funcs=InterfaceInner::process_ip;InterfaceInner::process_ipv4;InterfaceInner::process_tcp;InterfaceInner::process_icmpv4;InterfaceInner::icmpv4_reply;PacketAssemblerSet::get;PacketAssembler::add bounds=raw-IP_medium,_one_listening_TCP_socket;_32-octet_(TCP:_44-octet)_packet_to_the_own_address_from_any_source,_every_octet_after_the_IP_header_free;_protocol_1_(ICMP):_every_ICMP_octet_free_(echo_request_answered,_errors_with_free_quotes);_not_a_fragment;_no_IP_options
    #[cfg(feature = "socket-tcp")]
    #[kani::proof]
    pub(crate) fn ipv4_bytes_free_icmp() {
        ipv4_free_case::<32>(Some(1), false, false);
    }

    // @harness props=C03,C10 cfg=KI4t tier=q to=900 mem=8 unwind=10 opts=nomem covers=1 funcs=InterfaceInner::process_ip;InterfaceInner::process_ipv4;InterfaceInner::process_tcp;InterfaceInner::process_icmpv4;InterfaceInner::icmpv4_reply;PacketAssemblerSet::get;PacketAssembler::add bounds=raw-IP_medium,_one_listening_TCP_socket;_32-octet_(TCP:_44-octet)_packet_to_the_own_address_from_any_source,_every_octet_after_the_IP_header_free;_protocol_253_(unknown:_protocol_unreachable_path);_not_a_fragment;_no_IP_options
    #[cfg(feature = "socket-tcp")]
    #[kani::proof]
    pub(crate) fn ipv4_bytes_free_other() {
        ipv4_free_case::<32>(Some(253), false, false);
    }

    // @harness props=C03,C10 cfg=KI4t tier=q to=1200 mem=12 unwind=10 opts=nomem covers=1 funcs=InterfaceInner::process_ip;InterfaceInner::process_ipv4;InterfaceInner::process_tcp;InterfaceInner::process_icmpv4;InterfaceInner::icmpv4_reply;PacketAssemblerSet::get;PacketAssembler::add bounds=raw-IP_medium,_one_listening_TCP_socket;_32-octet_(TCP:_44-octet)_packet_to_the_own_address_from_any_source,_every_octet_after_the_IP_header_free;_protocol_17;_any_flags,_fragment_offset_0..=24_octets_(reassembly_path);_no_IP_options
    #[cfg(feature = "socket-tcp")]
    #[kani::proof]
    pub(crate) fn ipv4_bytes_free_fragment() {
        ipv4_free_case::<32>(Some(17), true, false);
    }

    // @harness props=C03,C10 cfg=KI4t tier=q to=900 mem=8 unwind=10 opts=nomem covers=1 funcs=InterfaceInner::process_ip;InterfaceInner::process_ipv4;InterfaceInner::process_tcp;InterfaceInner::process_icmpv4;InterfaceInner::icmpv4_reply;PacketAssemblerSet::get;PacketAssembler::add bounds=raw-IP_medium,_one_listening_TCP_socket;_32-octet_(TCP:_44-octet)_packet_to_the_own_address_from_any_source,_every_octet_after_the_IP_header_free;_protocol_17;_header_length_6_words_with_4_free_option_octets;_not_a_fragment
    #[cfg(feature = "socket-tcp")]
    #[kani::proof]
    pub(crate) fn ipv4_bytes_free_options() {
        ipv4_free_case::<32>(Some(17), false, true);
    }

    // @harness props=C03,C10 cfg=KI4t tier=t to=1800 mem=16 unwind=10 opts=nomem covers=1 funcs=InterfaceInner::process_ip;InterfaceInner::process_ipv4;InterfaceInner::process_tcp;InterfaceInner::process_icmpv4;InterfaceInner::icmpv4_reply;PacketAssemblerSet::get;PacketAssembler::add bounds=raw-IP_medium,_one_listening_TCP_socket;_32-octet_(TCP:_44-octet)_packet_to_the_own_address_from_any_source,_every_octet_after_the_IP_header_free;_protocol_octet_free;_not_a_fragment;_no_IP_options
    #[cfg(feature = "socket-tcp")]
    #[kani::proof]
    pub(crate) fn ipv4_bytes_free_any_proto() {
        ipv4_free_case::<32>(None, false, false);
    }

    // @harness props=C11,C03 cfg=KI4 tier=q to=900 mem=8 unwind=10 opts=nomem covers=3 funcs=InterfaceInner::process_ethernet;InterfaceInner::process_arp;InterfaceInner::process_ipv4 bounds=Ethernet_medium;_any_destination/source_MAC_and_ethertype;_payload:_ICMP_echo_request_to_the_own_address
    #[cfg(feature = "socket-icmp")]
    #[cfg(feature = "medium-ethernet")]
    #[kani::proof]
    pub(crate) fn eth_filter() {
        env4_icmp!(iface, sockets, ih, Medium::Ethernet, ChecksumCapabilities::ignored());
        let mut f = [0u8; 14 + 32];
        let dmac: [u8; 6] = kani::any();
        let smac: [u8; 6] = kani::any();
        let mut i = 0;
        while i < 6 {
            f[i] = dmac[i];
            f[6 + i] = smac[i];
            i += 1;
        }
        let et: u16 = kani::any();
        put16(&mut f, 12, et);
        let src: u32 = kani::any();
        ipv4_header(&mut f[14..], 32, 1, src, OWN_U32);
        f[14 + 20] = 8;
        let reply = iface.inner.process_ethernet(&mut sockets, PacketMeta::default(), &f[..], &mut iface.fragments);
        let ours = dmac == [0x02, 0, 0, 0, 0, 1];
        let bcast = dmac == [0xff; 6];
        let mcast = dmac[0] & 1 == 1;
        if !ours && !bcast && !mcast {
            crate::vassert!(reply.is_none(), "prop:c11_frame_for_another_station_not_answered");
            crate::vassert!(!sockets.get::<icmp::Socket>(ih).can_recv(), "prop:c11_frame_for_another_station_not_delivered");
        }
        if et != 0x0800 && et != 0x0806 {
            crate::vassert!(reply.is_none(), "prop:c11_unknown_ethertype_ignored");
        }
        kani::cover!(reply.is_some() && ours, "echo reply through Ethernet");
        kani::cover!(reply.is_none() && !ours && !bcast && !mcast && et == 0x0800, "foreign station ignored");
        kani::cover!(reply.is_some() && bcast, "broadcast frame answered");
    }

    // C08 (d): a packet whose checksum does not verify has no effect on sockets and is not answered.
    fn bad_cksum_packet(which: u8, b: &mut [u8; 40]) -> usize {
        let bad_ip: bool = kani::any();
        let src: u32 = 0xc0a8_0102;
        let (len, proto, ck_off) = match which {
            0 => (32usize, 17u8, 26usize),
            1 => (40, 6, 36),
            _ => (32, 1, 22),
        };
        ipv4_header(&mut b[..], len, proto, src, OWN_U32);
        match which {
            0 => { put16(&mut b[..], 20, 9999); put16(&mut b[..], 22, UDP_PORT); put16(&mut b[..], 24, 12); }
            1 => { put16(&mut b[..], 20, 9999); put16(&mut b[..], 22, TCP_PORT); b[32] = 0x50; b[33] = 0x02; put16(&mut b[..], 34, 100); }
            _ => { b[20] = 8; put16(&mut b[..], 24, 0x1234); }
        }
        // correct checksums computed by the crate's own routines (their correctness is C08 a-c), then one of them is broken
        let ip_ck = !checksum::data(&b[..20]);
        put16(&mut b[..], 10, ip_ck);
        let pseudo = checksum::pseudo_header_v4(&Ipv4Address::from_bits(src), &OWN, IpProtocol::from(proto), (len - 20) as u32);
        let l4 = match which {
            2 => !checksum::data(&b[20..len]),
            _ => !checksum::combine(&[pseudo, checksum::data(&b[20..len])]),
        };
        put16(&mut b[..], ck_off, l4);
        let delta: u16 = kani::any();
        kani::assume(delta != 0 && delta != 0xffff);
        if bad_ip {
            put16(&mut b[..], 10, ip_ck ^ delta);
        } else {
            let v = l4 ^ delta;
            // UDP: a zero checksum field means "no checksum" over IPv4 (allowed by the statement)
            kani::assume(!(which == 0 && v == 0));
            put16(&mut b[..], ck_off, v);
        }
        kani::cover!(bad_ip, "bad IP header checksum");
        kani::cover!(!bad_ip, "bad transport checksum");
        len
    }

    // @harness props=C08,C11:t cfg=KI4 tier=q to=900 mem=8 unwind=10 opts=nomem covers=2 funcs=InterfaceInner::process_ip;wire::Ipv4Repr::parse;wire::UdpRepr::parse bounds=raw-IP_medium,_rx_checksums_on;_well-formed_UDP_datagram_for_the_bound_socket_with_an_arbitrary_WRONG_checksum_field_(IP_header_or_UDP)
    #[cfg(feature = "socket-udp")]
    #[kani::proof]
    pub(crate) fn cksum_drop_no_effect_udp() {
        env4_udp!(iface, sockets, uh, Medium::Ip, ChecksumCapabilities::default());
        let mut b = [0u8; 40];
        let len = bad_cksum_packet(0, &mut b);
        let reply = iface.inner.process_ip(&mut sockets, PacketMeta::default(), &b[..len], &mut iface.fragments);
        crate::vassert!(reply.is_none(), "prop:c08_bad_checksum_not_answered");
        crate::vassert!(udp_untouched(&sockets, uh), "prop:c08_bad_checksum_has_no_effect_on_sockets");
    }

    // @harness props=C08,C11:t cfg=KI4 tier=q to=900 mem=8 unwind=10 opts=nomem covers=2 funcs=InterfaceInner::process_ip;wire::Ipv4Repr::parse;wire::TcpRepr::parse bounds=raw-IP_medium,_rx_checksums_on;_well-formed_TCP_SYN_for_the_listener_with_an_arbitrary_WRONG_checksum_field_(IP_header_or_TCP)
    #[cfg(feature = "socket-tcp")]
    #[kani::proof]
    pub(crate) fn cksum_drop_no_effect_tcp() {
        env4_tcp!(iface, sockets, th, Medium::Ip, ChecksumCapabilities::default());
        let mut b = [0u8; 40];
        let len = bad_cksum_packet(1, &mut b);
        let reply = iface.inner.process_ip(&mut sockets, PacketMeta::default(), &b[..len], &mut iface.fragments);
        crate::vassert!(reply.is_none(), "prop:c08_bad_checksum_not_answered");
        crate::vassert!(tcp_untouched(&sockets, th), "prop:c08_bad_checksum_has_no_effect_on_sockets");
    }

    // @harness props=C08,C11:t cfg=KI4 tier=q to=900 mem=8 unwind=10 opts=nomem covers=2 funcs=InterfaceInner::process_ip;wire::Ipv4Repr::parse;wire::Icmpv4Repr::parse bounds=raw-IP_medium,_rx_checksums_on;_well-formed_ICMP_echo_request_with_an_arbitrary_WRONG_checksum_field_(IP_header_or_ICMP)
    #[cfg(feature = "socket-icmp")]
    #[kani::proof]
    pub(crate) fn cksum_drop_no_effect_icmp() {
        env4_icmp!(iface, sockets, ih, Medium::Ip, ChecksumCapabilities::default());
        let mut b = [0u8; 40];
        let len = bad_cksum_packet(2, &mut b);
        let reply = iface.inner.process_ip(&mut sockets, PacketMeta::default(), &b[..len], &mut iface.fragments);
        crate::vassert!(reply.is_none(), "prop:c08_bad_checksum_not_answered");
        crate::vassert!(!sockets.get::<icmp::Socket>(ih).can_recv(), "prop:c08_bad_checksum_has_no_effect_on_sockets");
    }

    // C03 "not wedged": with every reassembly slot occupied by unfinished datagrams (any idents / offsets) and the
    // listener mid-handshake, a well-formed echo request to the own address is still answered.
    // @harness props=C03,C12 cfg=KI4 tier=q to=1200 mem=8 unwind=10 opts=nomem covers=2 funcs=InterfaceInner::process_ip;InterfaceInner::process_ipv4;PacketAssemblerSet::get;PacketAssembler::add;InterfaceInner::process_icmpv4 bounds=raw-IP_medium;_3_middle_fragments_of_3_different_datagrams_(fill_both_reassembly_slots;_concrete_keys/offsets,_symbolic_payload)_then_a_TCP_SYN,_then_an_echo_request
    #[cfg(feature = "socket-tcp")]
    #[kani::proof]
    pub(crate) fn echo_after_fragments() {
        env4_tcp!(iface, sockets, th, Medium::Ip, ChecksumCapabilities::ignored());
        let peer: u32 = 0xc0a8_0102;
        let mut n_none = 0;
        // three unfinished fragments with symbolic keys: fills both slots (the third finds the set full or shares a key)
        let mut k = 0;
        while k < 3 {
            let mut f = [0u8; 28];
            ipv4_header(&mut f, 28, 17, peer, OWN_U32);
            // concrete keys and offsets (a symbolic slot choice in PacketAssemblerSet::get exhausts 8 GB); payload symbolic
            let ident: u16 = 100 + k as u16;
            let off8: u16 = 1 + k as u16;
            put16(&mut f, 4, ident);
            put16(&mut f, 6, 0x2000 | off8);
            f[20] = kani::any();
            f[27] = kani::any();
            let r = iface.inner.process_ip(&mut sockets, PacketMeta::default(), &f[..], &mut iface.fragments);
            if r.is_none() { n_none += 1; }
            k += 1;
        }
        // a SYN takes the listener to SYN-RECEIVED
        let mut b = [0u8; 40];
        ipv4_header(&mut b, 40, 6, peer, OWN_U32);
        put16(&mut b, 20, 4000);
        put16(&mut b, 22, TCP_PORT);
        put32(&mut b, 24, kani::any());
        b[32] = 0x50;
        b[33] = 0x02;
        put16(&mut b, 34, 100);
        let _ = iface.inner.process_ip(&mut sockets, PacketMeta::default(), &b[..], &mut iface.fragments);
        // the interface still answers a ping
        let mut e = [0u8; 32];
        ipv4_header(&mut e, 32, 1, peer, OWN_U32);
        e[20] = 8;
        put16(&mut e, 24, kani::any());
        put16(&mut e, 26, kani::any());
        let reply = iface.inner.process_ip(&mut sockets, PacketMeta::default(), &e[..], &mut iface.fragments);
        crate::vassert!(reply.is_some(), "prop:c03_echo_request_answered_after_arbitrary_fragments");
        if let Some(p) = &reply {
            crate::vassert!(reply_src_legal(p), "prop:c10_reply_source_is_own_unicast_address");
        }
        kani::cover!(n_none == 3 && !tcp_untouched(&sockets, th), "fragments buffered, listener mid-handshake");
        kani::cover!(reply.is_some(), "echo answered");
    }

    // @harness props=C11,C03 kind=mustfail cfg=KI4 tier=q to=900 mem=8 unwind=8 opts=nomem
    #[cfg(feature = "socket-tcp")]
    #[kani::proof]
    pub(crate) fn iface_ingress_must_fail() {
        env4_tcp!(iface, sockets, th, Medium::Ip, ChecksumCapabilities::ignored());
        let src: u32 = kani::any();
        let dst: u32 = kani::any();
        let mut b = [0u8; 40];
        ipv4_header(&mut b, 40, 6, src, dst);
        put16(&mut b, 20, 1000);
        put16(&mut b, 22, TCP_PORT);
        b[32] = 0x50;
        b[33] = 0x02;
        let reply = iface.inner.process_ip(&mut sockets, PacketMeta::default(), &b[..], &mut iface.fragments);
        crate::vassert!(tcp_untouched(&sockets, th), "prop:deliberately_false_listener_never_accepts");
    }
}
