// DNS resolver harnesses: C19 (plus the DNS parts of C13, C07, C03).
// Spliced into src/socket/dns.rs: private fields of `Socket`, `DnsQuery`, `PendingQuery` and the
// free functions `eq_names` / `copy_name` are reachable.
//
// `dns_process_<form>`: one pending query made through the real API (`Socket::new`, `start_query`), its
// private fields then overwritten with symbolic values; the response is an RFC 1035 *byte template*
// written here (concrete record layout per form, symbolic field values); every obligation is decided
// against a reference evaluated on the raw template fields (`ref_names_eq` is an independent RFC 1035
// 4.1.4 name comparison; the crate's parser is not used by the oracle).
//
// Why the forms are so concrete (all measured, see the comments at `PAD`, `Owner`, `Rd`, `dns_env!`):
// the pending query lives inside `enum State`, and CBMC does not constant-propagate reads through an
// enum payload, so every `p.parse_name(&pq.name)` is explored as if the stored name were arbitrary;
// on top of that any parser result that fails under a *symbolic* condition comes back as a merged
// pointer which symbolic execution follows into every object.  Fields that decide parser errors
// (CLASS, TYPE, RDLENGTH, pointer targets, truncation length) are therefore concrete per form and the
// forms are enumerated; label bytes, RDATA, TTL, id, flags, the four counts, the question type, the
// source address and both ports are symbolic in every form.  One `process` call costs ~60 s / 3 GB.
#[allow(dead_code, unused_imports, unused_variables, unused_mut, unused_assignments)]
mod v_socket_dns {
    use super::*;
    use crate::iface::{Config, Interface};
    use crate::phy::{ChecksumCapabilities, Medium};
    use crate::verif_common::*;
    use crate::verif_dev::NullDev;
    use crate::wire::{HardwareAddress, IpCidr, Ipv4Address, Ipv4Repr, Ipv6Address, Ipv6Repr};

    const LOCAL4: Ipv4Address = Ipv4Address::new(192, 168, 1, 1);
    const LOCAL6: Ipv6Address = Ipv6Address::new(0x2001, 0xdb8, 0, 0, 0, 0, 0, 1);
    const S4: Ipv4Address = Ipv4Address::new(8, 8, 8, 8);
    const S4B: Ipv4Address = Ipv4Address::new(9, 9, 9, 9);
    const S6: Ipv6Address = Ipv6Address::new(0x2001, 0xdb8, 0, 0, 0, 0, 0, 0x53);

    /// The socket's query storage is always a prefix of a larger array: CBMC's symbolic execution cannot decide
    /// `Flatten<slice::IterMut>` exhaustion when the one-past-the-end pointer leaves the array object and would
    /// unroll `for q in self.queries.iter_mut().flatten()` (with junk iterations) up to the unwind bound
    /// (measured: 1 slot, unwind 10 => out of memory at 6 GB; padded => bounded at the real slot count).
    const PAD: usize = 2;

    macro_rules! dns_env {
        ($dev:ident, $iface:ident, $cx:ident, $now:ident) => {
            let mut $dev = NullDev { medium: Medium::Ip, mtu: 1500, checksum: ChecksumCapabilities::ignored() };
            // `now` and every other instant of these harnesses are in MICROseconds, the unit of Instant/Duration:
            // going through from_millis puts `(a + b) * 1000 == a * 1000 + b * 1000` in front of the SAT solver
            // (measured: the final UNSAT proof of dns_poll_at_step 176 s, dns_dispatch_step > 10 min)
            let $now: i64 = kani::any();
            kani::assume($now >= 0 && $now < (1i64 << 50));
            let mut $iface = Interface::new(Config::new(HardwareAddress::Ip), &mut $dev, Instant::from_micros($now));
            $iface.update_ip_addrs(|a| {
                a.push(IpCidr::new(IpAddress::Ipv4(LOCAL4), 24)).unwrap();
            });
            let $cx = $iface.context();
        };
    }

    const SEC: i64 = 1_000_000;

    fn any_us_in(lo: i64, hi: i64) -> i64 {
        let t: i64 = kani::any();
        kani::assume(t >= lo && t <= hi);
        t
    }

    fn pending_of<'s, 'a>(s: &'s mut Socket<'a>, i: usize) -> &'s mut PendingQuery {
        match &mut s.queries[i].as_mut().unwrap().state {
            State::Pending(pq) => pq,
            _ => panic!("slot is not pending"),
        }
    }

    /// `<1>x<1>y<0>` with the given label bytes
    fn name_of(qn: [u8; 2]) -> Vec<u8, DNS_MAX_NAME_SIZE> {
        let mut v = Vec::new();
        v.push(1).unwrap();
        v.push(qn[0]).unwrap();
        v.push(1).unwrap();
        v.push(qn[1]).unwrap();
        v.push(0).unwrap();
        v
    }
    const QNAME: &str = "a.b";
    const QNAME_RAW: [u8; 5] = [1, b'a', 1, b'b', 0];

    fn type_val(is_a: bool) -> u16 {
        if is_a { 1 } else { 28 }
    }

    // ------------------------------------------------------------------ RFC 1035 byte templates
    const NB: usize = 64;
    /// offset of the question name `[1, x, 1, y, 0]`, of its last label, of its root octet, of the first answer record
    const QN_OFF: usize = 12;
    const QSUF_OFF: usize = 14;
    const QROOT_OFF: usize = 16;
    const ANS_OFF: usize = 21;

    struct Tpl {
        b: [u8; NB],
        n: usize,
    }
    impl Tpl {
        fn new() -> Tpl {
            Tpl { b: [0; NB], n: 0 }
        }
        fn put(&mut self, v: u8) {
            self.b[self.n] = v;
            self.n += 1;
        }
        fn put16(&mut self, v: u16) {
            self.put((v >> 8) as u8);
            self.put(v as u8);
        }
        fn sym(&mut self) -> u8 {
            let v: u8 = kani::any();
            self.put(v);
            v
        }
        fn sym4(&mut self) {
            self.sym();
            self.sym();
            self.sym();
            self.sym();
        }
        fn sym16(&mut self) -> u16 {
            let v: u16 = kani::any();
            self.put16(v);
            v
        }
    }

    #[derive(Clone, Copy)]
    struct Hdr {
        id: u16,
        flags: u16,
        qd: u16,
        an: u16,
        rq: [u8; 2],
        rqtype: u16,
        rqclass: u16,
        /// the question has the queried name's layout `<1>x<1>y<0>` (else it is a strict prefix / extension of it)
        qlayout_ok: bool,
        /// offset of the first answer record
        ans_off: usize,
    }

    /// 12-byte header, every field symbolic, then one question `<1>x<1>y<0> TYPE CLASS`
    /// `qshape`: 0 = `<1>x<1>y<0>`, 1 = `<1>x<0>` (strict prefix of the queried name's label sequence),
    /// 2 = `<1>x<1>y<1>z<0>` (strict extension)
    fn put_header_question(t: &mut Tpl, qclass: u16, qshape: u8) -> Hdr {
        let id = t.sym16();
        let flags = t.sym16();
        let qd = t.sym16();
        let an = t.sym16();
        let _ns = t.sym16();
        let _ar = t.sym16();
        t.put(1);
        let r0 = t.sym();
        let mut r1 = 0;
        if qshape != 1 {
            t.put(1);
            r1 = t.sym();
        }
        if qshape == 2 {
            t.put(1);
            t.sym();
        }
        t.put(0);
        let rqtype = t.sym16();
        // concrete: a symbolic CLASS makes Question::parse fail under a symbolic condition (see `Owner`)
        t.put16(qclass);
        let rqclass = qclass;
        Hdr { id, flags, qd, an, rq: [r0, r1], rqtype, rqclass, qlayout_ok: qshape == 0, ans_off: t.n }
    }

    /// owner-name form of an answer record (the case split of DESIGN.md C19).  Pointer targets are concrete per
    /// form: a symbolic target makes `parse_name` return `Some(Err)` under a symbolic condition, and CBMC's symbolic
    /// execution then follows the merged (partly uninitialised) label pointer into every object (measured: out of
    /// memory).  The targets are instead enumerated as concrete forms.
    #[derive(Clone, Copy, PartialEq, Eq)]
    enum Owner {
        /// `<1>x<1>y<0>` with symbolic label bytes
        Inline,
        /// compression pointer to the given offset (QN_OFF = the question name, SELF = itself)
        Ptr(usize),
        /// `<1>x` then a compression pointer to the given offset
        LabelPtr(usize),
        /// `<1>x<1>y<1>z<0>`: a strict extension of the queried name's label sequence
        InlineExt,
    }
    const SELF: usize = 0xffff;

    /// TYPE and RDATA layout of a record: concrete TYPE (a symbolic TYPE makes `Record::parse` fail under a symbolic
    /// condition, same effect as above), symbolic RDATA bytes
    #[derive(Clone, Copy, PartialEq, Eq)]
    enum Rd {
        A,
        Aaaa,
        /// CNAME with RDATA `<1>x` + pointer to the given offset (QSUF_OFF: "x.c"; SELF: points at itself)
        CnameLabelPtr(usize),
        /// CNAME with RDATA `<2>xx<0>`
        CnameInline,
        /// NS record with 4 opaque bytes
        Other,
    }

    #[derive(Clone, Copy)]
    struct RecT {
        name_off: usize,
        ty: u16,
        class: u16,
        rdlen: u16,
        rd_off: usize,
        /// RDATA bytes actually present in the template
        rd_cap: usize,
    }
    const NOREC: RecT = RecT { name_off: 0, ty: 0, class: 0, rdlen: 0, rd_off: 0, rd_cap: 0 };

    fn put_ptr(t: &mut Tpl, to: usize, own: usize) {
        let to = if to == SELF { own } else { to };
        t.put(0xc0 | ((to >> 8) as u8 & 0x3f));
        t.put(to as u8);
    }

    fn put_owner(t: &mut Tpl, o: Owner) {
        match o {
            Owner::Inline => {
                t.put(1);
                t.sym();
                t.put(1);
                t.sym();
                t.put(0);
            }
            Owner::InlineExt => {
                t.put(1);
                t.sym();
                t.put(1);
                t.sym();
                t.put(1);
                t.sym();
                t.put(0);
            }
            Owner::Ptr(to) => {
                let own = t.n;
                put_ptr(t, to, own);
            }
            Owner::LabelPtr(to) => {
                let own = t.n;
                t.put(1);
                t.sym();
                put_ptr(t, to, own);
            }
        }
    }

    /// NAME TYPE CLASS TTL RDLENGTH RDATA.  `class` and `rdlen_delta` are concrete knobs of the form (1 / 0 for a
    /// well-formed record); TTL and the RDATA bytes are symbolic.
    fn put_record(t: &mut Tpl, o: Owner, rd: Rd, class: u16, rdlen_delta: i16) -> RecT {
        let name_off = t.n;
        put_owner(t, o);
        let (ty, cap): (u16, usize) = match rd {
            Rd::A => (1, 4),
            Rd::Aaaa => (28, 16),
            Rd::CnameLabelPtr(_) => (5, 4),
            Rd::CnameInline => (5, 4),
            Rd::Other => (2, 4),
        };
        t.put16(ty);
        t.put16(class);
        t.sym16();
        t.sym16();
        let rdlen = (cap as i16 + rdlen_delta) as u16;
        t.put16(rdlen);
        let rd_off = t.n;
        match rd {
            Rd::A | Rd::Other => t.sym4(),
            Rd::Aaaa => {
                t.sym4();
                t.sym4();
                t.sym4();
                t.sym4();
            }
            Rd::CnameLabelPtr(to) => {
                t.put(1);
                t.sym();
                let own = t.n;
                put_ptr(t, to, own);
            }
            Rd::CnameInline => {
                t.put(2);
                t.sym();
                t.sym();
                t.put(0);
            }
        }
        RecT { name_off, ty, class, rdlen, rd_off, rd_cap: cap }
    }

    // ------------------------------------------------------------------ reference name comparison
    const REF_HOPS: usize = 4;
    const REF_LABELS: usize = 5;
    const REF_LBL: usize = 3;

    /// follow compression pointers from `pos`: (1, p) = a length octet sits at p; (0, _) = malformed
    /// (outside the message); (2, _) = more than REF_HOPS hops (oracle gives up)
    fn ref_resolve(m: &[u8; NB], n: usize, pos0: usize) -> (u8, usize) {
        let mut pos = pos0;
        let mut res = 2u8;
        let mut fin = false;
        let mut i = 0;
        while i <= REF_HOPS {
            if !fin {
                if pos >= n {
                    res = 0;
                    fin = true;
                } else {
                    let x = m[pos];
                    if x & 0xc0 == 0xc0 {
                        if pos + 1 >= n {
                            res = 0;
                            fin = true;
                        } else {
                            pos = (((x & 0x3f) as usize) << 8) | (m[pos + 1] as usize);
                        }
                    } else {
                        res = 1;
                        fin = true;
                    }
                }
            }
            i += 1;
        }
        (res, pos)
    }

    /// RFC 1035 4.1.4: do the (possibly compressed) names at offsets `a0` and `b0` of message `m[..n]`
    /// spell the same label sequence?  1 = yes, 0 = no / malformed, 2 = beyond the oracle's bounds
    /// (> REF_HOPS consecutive pointers, > REF_LABELS labels, equal label lengths > REF_LBL)
    fn ref_names_eq(m: &[u8; NB], n: usize, a0: usize, b0: usize) -> u8 {
        let mut a = a0;
        let mut b = b0;
        let mut res = 2u8;
        let mut done = false;
        let mut l = 0;
        while l < REF_LABELS {
            if !done {
                let (ka, pa) = ref_resolve(m, n, a);
                let (kb, pb) = ref_resolve(m, n, b);
                if ka == 0 || kb == 0 {
                    res = 0;
                    done = true;
                } else if ka == 2 || kb == 2 {
                    res = 2;
                    done = true;
                } else {
                    let xa = m[pa];
                    let xb = m[pb];
                    let la = xa as usize;
                    if xa & 0xc0 != 0 || xb & 0xc0 != 0 || xa != xb {
                        res = 0;
                        done = true;
                    } else if xa == 0 {
                        res = 1;
                        done = true;
                    } else if pa + 1 + la > n || pb + 1 + la > n {
                        res = 0;
                        done = true;
                    } else if la > REF_LBL {
                        res = 2;
                        done = true;
                    } else {
                        let mut same = true;
                        let mut k = 1;
                        while k <= REF_LBL {
                            if k <= la && m[pa + k] != m[pb + k] {
                                same = false;
                            }
                            k += 1;
                        }
                        if !same {
                            res = 0;
                            done = true;
                        } else {
                            a = pa + 1 + la;
                            b = pb + 1 + la;
                        }
                    }
                }
            }
            l += 1;
        }
        res
    }

    // ------------------------------------------------------------------ process: one form
    #[derive(Clone, Copy)]
    struct Form {
        nrec: usize,
        o: [Owner; 2],
        rd: [Rd; 2],
        /// layout of the question name (see put_header_question), CLASS of the question and of the records (1 = IN)
        qshape: u8,
        qclass: u16,
        class: [u16; 2],
        /// RDLENGTH minus the RDATA size the TYPE calls for
        rdlen_delta: [i16; 2],
        /// hand `process` only this many bytes of the template (0 = all)
        cut: usize,
        /// also demand that the canonical matching one-record response completes the query
        complete: bool,
        /// assert "result addresses are of the requested type" / "a dropped response leaves the query name alone"
        /// in this form.  Both obligations fail on the current code wherever they are reachable (one source line
        /// each); they are asserted in two designated harnesses each, because the counterexample playback of a
        /// `process` harness needs 9 GB (the verification run 3 GB).
        check_type: bool,
        check_name: bool,
    }

    #[derive(Clone, Copy)]
    struct Out {
        acc: bool,
        completed: bool,
        failed: bool,
        naddr: usize,
        id_ok: bool,
        port_ok: bool,
        question_ok: bool,
        qr: bool,
        rcode: u8,
        an: u16,
        cname_followed: bool,
        other_name: bool,
        name_changed: bool,
        is_a: bool,
        first_is_v4: bool,
    }

    fn process_form(f: Form) -> Out {
        dns_env!(dev, iface, cx, now);
        let mut slots: [Option<DnsQuery>; 1 + PAD] = [None, None, None];
        // IPv4 servers only: comparing two IPv6 addresses is a 16-byte memcmp and would set the unwind bound of the
        // whole harness (IPv6 servers: dns_accepts)
        let servers = [IpAddress::Ipv4(S4), IpAddress::Ipv4(S4B)];
        let mut s = Socket::new(&servers[..], &mut slots[..1]);
        let is_a: bool = kani::any();
        let qtype = if is_a { Type::A } else { Type::Aaaa };
        let h = s.start_query(cx, QNAME, qtype).unwrap();

        // private state as `dispatch` may have left it, identity fields arbitrary
        let qn: [u8; 2] = kani::any();
        let txid: u16 = kani::any();
        let port: u16 = kani::any();
        kani::assume(port > 1024);
        let idx = any_lt(2);
        let ta = if kani::any() { Some(Instant::from_micros(any_us_in(0, now + 10 * SEC))) } else { None };
        let ra = Instant::from_micros(any_us_in(0, now + 10 * SEC));
        let delay = Duration::from_micros((SEC as usize + any_le(9 * SEC as usize)) as u64);
        {
            let pq = pending_of(&mut s, 0);
            assert!(pq.name.as_slice() == &QNAME_RAW[..], "prop:c19_start_query_encodes_labels");
            pq.name = name_of(qn);
            pq.txid = txid;
            pq.port = port;
            pq.server_idx = idx;
            pq.timeout_at = ta;
            pq.retransmit_at = ra;
            pq.delay = delay;
        }

        // the response
        let mut t = Tpl::new();
        let hd = put_header_question(&mut t, f.qclass, f.qshape);
        let mut recs = [NOREC; 2];
        if f.nrec >= 1 {
            recs[0] = put_record(&mut t, f.o[0], f.rd[0], f.class[0], f.rdlen_delta[0]);
        }
        if f.nrec >= 2 {
            recs[1] = put_record(&mut t, f.o[1], f.rd[1], f.class[1], f.rdlen_delta[1]);
        }
        let full = t.n;
        let m = t.b;
        let n = if f.cut != 0 { f.cut } else { full };

        let sport: u16 = kani::any();
        let dport: u16 = kani::any();
        let v4: bool = kani::any();
        let so: [u8; 4] = kani::any();
        let s6lo: u16 = kani::any();
        let ip_repr = if v4 {
            IpRepr::Ipv4(Ipv4Repr {
                src_addr: Ipv4Address::new(so[0], so[1], so[2], so[3]),
                dst_addr: LOCAL4,
                next_header: IpProtocol::Udp,
                payload_len: 8 + n,
                hop_limit: 64,
            })
        } else {
            IpRepr::Ipv6(Ipv6Repr {
                src_addr: Ipv6Address::new(0x2001, 0xdb8, 0, 0, 0, 0, 0, s6lo),
                dst_addr: LOCAL6,
                next_header: IpProtocol::Udp,
                payload_len: 8 + n,
                hop_limit: 64,
            })
        };
        let udp_repr = UdpRepr { src_port: sport, dst_port: dport };
        let from_server = v4 && ((so[0] == 8 && so[1] == 8 && so[2] == 8 && so[3] == 8) || (so[0] == 9 && so[1] == 9 && so[2] == 9 && so[3] == 9));
        let acc_ref = (sport == 53 && from_server) || sport == 5353;

        crate::vdump!("QUERY name=[1,{},1,{},0] type={} txid={:#x} port={} idx={} ta={:?} ra={:?} delay={:?}", qn[0], qn[1], type_val(is_a), txid, port, idx, ta, ra, delay);
        crate::vdump!("RESPONSE from {:?} sport={} dport={} len={} bytes={:02x?}", ip_repr.src_addr(), sport, dport, n, &m[..n]);

        let acc = s.accepts(&ip_repr, &udp_repr);
        assert!(acc == acc_ref, "prop:c19_accepts_only_port_53_of_configured_server_or_mdns_port");
        if acc {
            s.process(cx, &ip_repr, &udp_repr, &m[..n]);
        }
        crate::vdump!("POST accepted={} {:?}", acc, s.queries[0]);

        // ---- reference on the raw template fields
        let qr = hd.flags & 0x8000 != 0;
        let rcode = (hd.flags & 0xf) as u8;
        let id_ok = hd.id == txid;
        let port_ok = dport == port;
        let qname_ok = hd.qd == 1 && n >= hd.ans_off && hd.qlayout_ok && hd.rq[0] == qn[0] && hd.rq[1] == qn[1];
        let qtype_ok = hd.rqtype == type_val(is_a);
        // answer records whose owner is the queried name or the current end of the CNAME chain
        let mut exp_v4 = [true; 2];
        let mut exp0 = [0u8; 16];
        let mut exp1 = [0u8; 16];
        let mut exp_n = 0usize;
        let mut cur = QN_OFF;
        let mut unknown = false;
        let mut cname_followed = false;
        let mut other_name = false;
        // record i sits where the template put it only if every earlier RDLENGTH equals the template's RDATA size
        let mut aligned = true;
        let mut i = 0;
        while i < f.nrec {
            let r = recs[i];
            if (i as u16) < hd.an && !aligned {
                unknown = true;
            }
            if r.rdlen as usize != r.rd_cap {
                aligned = false;
            }
            if (i as u16) < hd.an && !unknown && r.rd_off + (r.rdlen as usize) <= n {
                let e = ref_names_eq(&m, n, r.name_off, cur);
                if e == 2 {
                    unknown = true;
                } else if e == 0 {
                    other_name = true;
                } else if (r.ty == 1 && r.rdlen == 4 && is_a) || (r.ty == 28 && r.rdlen == 16 && !is_a) {
                    // (address records of the type that was not asked for are ignored)
                    let o = r.rd_off;
                    let mut o16 = [m[o], m[o + 1], m[o + 2], m[o + 3], 0, 0, 0, 0, 0, 0, 0, 0, 0, 0, 0, 0];
                    if r.ty == 28 {
                        o16 = [
                            m[o], m[o + 1], m[o + 2], m[o + 3], m[o + 4], m[o + 5], m[o + 6], m[o + 7],
                            m[o + 8], m[o + 9], m[o + 10], m[o + 11], m[o + 12], m[o + 13], m[o + 14], m[o + 15],
                        ];
                    }
                    if exp_n == 0 {
                        exp0 = o16;
                        exp_v4[0] = r.ty == 1;
                    } else if exp_n == 1 {
                        exp1 = o16;
                        exp_v4[1] = r.ty == 1;
                    }
                    exp_n += 1;
                } else if r.ty == 5 {
                    cur = r.rd_off;
                    cname_followed = true;
                }
            }
            i += 1;
        }
        if (hd.an as usize) > f.nrec && !aligned {
            // further records may hide in what the template calls RDATA
            unknown = true;
        }

        let mut out = Out {
            acc, completed: false, failed: false, naddr: 0, id_ok, port_ok, question_ok: qname_ok && qtype_ok, qr, rcode,
            an: hd.an, cname_followed, other_name, name_changed: false, is_a, first_is_v4: false,
        };
        let q = s.queries[0].as_ref().unwrap();
        match &q.state {
            State::Pending(pq) => {
                // not answered: nothing about the query may have moved
                assert!(
                    pq.txid == txid && pq.port == port && pq.type_ == qtype && pq.server_idx == idx,
                    "prop:c19_rejected_response_leaves_query_identity_unchanged"
                );
                assert!(
                    pq.timeout_at == ta && pq.retransmit_at == ra && pq.delay == delay,
                    "prop:c19_rejected_response_leaves_query_timers_unchanged"
                );
                let same_name = pq.name.len() == 5
                    && pq.name[0] == 1 && pq.name[1] == qn[0] && pq.name[2] == 1 && pq.name[3] == qn[1] && pq.name[4] == 0;
                out.name_changed = !same_name;
                if f.check_name {
                    assert!(same_name, "prop:c19_rejected_response_leaves_query_name_unchanged");
                }
                if f.complete {
                    // the canonical answer (one A/AAAA record of the requested type owned by the queried name) is not ignored
                    let r = recs[0];
                    let owner_ok = match f.o[0] {
                        Owner::Ptr(QN_OFF) => true,
                        Owner::Inline => m[r.name_off + 1] == qn[0] && m[r.name_off + 3] == qn[1],
                        Owner::LabelPtr(QSUF_OFF) => m[r.name_off + 1] == qn[0],
                        _ => false,
                    };
                    let canonical = acc && port_ok && id_ok && qr && (hd.flags >> 11) & 0xf == 0 && rcode != 3 && qname_ok && qtype_ok
                        && hd.rqclass == 1 && hd.an == 1 && r.class == 1 && owner_ok && n == full
                        && r.ty == type_val(is_a) && r.rdlen as usize == (if is_a { 4 } else { 16 });
                    assert!(!canonical, "prop:c19_matching_response_completes_query");
                }
            }
            State::Failure => {
                out.failed = true;
                assert!(acc && port_ok && id_ok && qr, "prop:c19_failure_only_from_matching_response");
                assert!(rcode == 3 || (qname_ok && qtype_ok), "prop:c19_failure_only_nxdomain_or_answer_to_own_question");
                if rcode != 3 && !unknown {
                    assert!(exp_n == 0, "prop:c19_no_failure_when_response_carries_matching_address");
                }
            }
            State::Completed(c) => {
                out.completed = true;
                let na = c.addresses.len();
                out.naddr = na;
                out.first_is_v4 = na > 0 && matches!(c.addresses[0], IpAddress::Ipv4(_));
                assert!(acc_ref, "prop:c19_completes_only_from_server_port_53_or_mdns_port");
                assert!(port_ok, "prop:c19_completes_only_at_query_source_port");
                assert!(id_ok, "prop:c19_completes_only_with_query_transaction_id");
                assert!(qr, "prop:c19_completes_only_from_a_response");
                assert!(qname_ok, "prop:c19_completes_only_if_question_name_repeated");
                assert!(qtype_ok, "prop:c19_completes_only_if_question_type_repeated");
                kani::assume(!unknown);
                assert!(na >= 1 && na <= DNS_MAX_RESULT_COUNT, "prop:c19_completed_query_has_addresses");
                let k = any_lt(2);
                if k < na {
                    // address k of the result, octet j (no IpAddress == IpAddress: that is a memcmp loop)
                    let a = c.addresses[k];
                    let j = any_lt(16);
                    let (a_v4, a_j) = match a {
                        IpAddress::Ipv4(x) => (true, if j < 4 { x.octets()[j] } else { 0 }),
                        IpAddress::Ipv6(x) => (false, x.octets()[j]),
                    };
                    let is0 = exp_n >= 1 && a_v4 == exp_v4[0] && a_j == exp0[j];
                    let is1 = exp_n >= 2 && a_v4 == exp_v4[1] && a_j == exp1[j];
                    assert!(is0 || is1, "prop:c19_result_address_from_record_of_queried_name_or_cname_target");
                    assert!(if k == 0 { is0 } else { is1 }, "prop:c19_result_lists_matching_records_in_order");
                    if f.check_type {
                        assert!(a_v4 == is_a, "prop:c19_result_address_of_requested_type");
                    }
                }
                assert!(na == core::cmp::min(exp_n, 2), "prop:c19_result_lists_matching_records_in_order");
            }
        }
        out
    }

    /// one answer record owned by a pointer to the question name, A data, everything well formed
    const F_ONE: Form = Form {
        nrec: 1, o: [Owner::Ptr(QN_OFF), Owner::Ptr(QN_OFF)], rd: [Rd::A, Rd::A], qshape: 0, qclass: 1, class: [1, 1], rdlen_delta: [0, 0], cut: 0, complete: false, check_type: true, check_name: true,
    };
    const F_TWO: Form = Form { nrec: 2, ..F_ONE };
    /// RDATA offset of record 1 when its owner is a 2-byte pointer
    const RD1: usize = ANS_OFF + 12;

    /// Run `process_form` on the form selected by a symbolic index: every arm is executed with its own concrete
    /// shape, the solver picks the arm.
    macro_rules! one_of {
        ($($f:expr),+ $(,)?) => {{
            let forms = [$($f),+];
            let sel = any_lt(forms.len());
            let mut out: Option<Out> = None;
            let mut i = 0usize;
            $(
                if sel == i {
                    out = Some(process_form($f));
                }
                i += 1;
            )+
            (sel, out.unwrap())
        }};
    }

    // @harness props=C19,C03:t cfg=KN tier=q to=900 mem=12 unwind=7 opts=nomem covers=5 funcs=dns::Socket::accepts;dns::Socket::process;dns::Socket::start_query;wire::dns::Packet::parse_name;wire::dns::Question::parse;wire::dns::Record::parse;wire::dns::RecordData::parse;dns::eq_names;dns::copy_name bounds=query_name_<1>x<1>y_with_symbolic_label_bytes,_type_A_or_AAAA,_txid/port/timers_symbolic;_response_=_byte_template_with_symbolic_id/flags/QDCOUNT/ANCOUNT/NSCOUNT/ARCOUNT,_question_<1>x<1>y_with_symbolic_label_bytes_and_TYPE,_concrete_record_layout_per_arm_with_symbolic_TTL/RDATA;_source_any_IPv4_or_2001:db8::x,_ports_any;_one_A_record_owned_by_pointer_0xc00c
    #[kani::proof]
    pub(crate) fn dns_process_ptrq_a() {
        let o = process_form(Form { complete: true, check_type: true, ..F_ONE });
        kani::cover!(o.completed && o.naddr == 1 && o.first_is_v4 && o.is_a, "query completed with one IPv4 address");
        kani::cover!(o.acc && !o.id_ok && !o.completed && !o.failed && o.port_ok && o.question_ok && o.qr, "response rejected: wrong id");
        kani::cover!(o.acc && o.id_ok && !o.port_ok && !o.completed && !o.failed, "response rejected: wrong destination port");
        kani::cover!(o.failed && o.rcode == 3, "NXDomain failed the query");
        kani::cover!(o.failed && o.rcode == 0 && o.an == 0, "answerless response failed the query");
    }

    // @harness props=C19,C03:t cfg=KN tier=q to=900 mem=12 unwind=7 opts=nomem covers=2 funcs=dns::Socket::accepts;dns::Socket::process;dns::Socket::start_query;wire::dns::Packet::parse_name;wire::dns::Question::parse;wire::dns::Record::parse;wire::dns::RecordData::parse;dns::eq_names;dns::copy_name bounds=query_name_<1>x<1>y_with_symbolic_label_bytes,_type_A_or_AAAA,_txid/port/timers_symbolic;_response_=_byte_template_with_symbolic_id/flags/QDCOUNT/ANCOUNT/NSCOUNT/ARCOUNT,_question_<1>x<1>y_with_symbolic_label_bytes_and_TYPE,_concrete_record_layout_per_arm_with_symbolic_TTL/RDATA;_source_any_IPv4_or_2001:db8::x,_ports_any;_one_AAAA_record_owned_by_pointer_0xc00c
    #[kani::proof]
    pub(crate) fn dns_process_ptrq_aaaa() {
        let o = process_form(Form { rd: [Rd::Aaaa, Rd::A], complete: true, check_type: true, ..F_ONE });
        kani::cover!(o.completed && !o.first_is_v4 && !o.is_a, "query completed with one IPv6 address");
        kani::cover!(o.acc && o.id_ok && o.port_ok && o.qr && !o.question_ok && !o.completed && !o.failed, "response rejected: other question");
    }

    // @harness props=C19,C03:t cfg=KN tier=q to=900 mem=16 unwind=7 opts=nomem covers=2 funcs=dns::Socket::accepts;dns::Socket::process;dns::Socket::start_query;wire::dns::Packet::parse_name;wire::dns::Question::parse;wire::dns::Record::parse;wire::dns::RecordData::parse;dns::eq_names;dns::copy_name bounds=query_name_<1>x<1>y_with_symbolic_label_bytes,_type_A_or_AAAA,_txid/port/timers_symbolic;_response_=_byte_template_with_symbolic_id/flags/QDCOUNT/ANCOUNT/NSCOUNT/ARCOUNT,_question_<1>x<1>y_with_symbolic_label_bytes_and_TYPE,_concrete_record_layout_per_arm_with_symbolic_TTL/RDATA;_source_any_IPv4_or_2001:db8::x,_ports_any;_the_single_answer_record_(owner_0xc00c)_is_a_CNAME_with_RDATA_<1>x+pointer_to_the_question's_last_label
    #[kani::proof]
    pub(crate) fn dns_process_cname_only() {
        let o = process_form(Form { rd: [Rd::CnameLabelPtr(QSUF_OFF), Rd::A], ..F_ONE });
        assert!(!o.completed, "prop:c19_no_completion_without_address_record");
        kani::cover!(o.failed && o.rcode == 0 && o.cname_followed, "lone CNAME answer failed the query");
        kani::cover!(o.acc && o.id_ok && o.port_ok && o.question_ok && o.qr && o.an == 2 && !o.failed, "ANCOUNT beyond the message: response dropped");
    }

    // @harness props=C19,C03:t cfg=KN tier=q to=900 mem=8 unwind=7 opts=nomem covers=2 funcs=dns::Socket::accepts;dns::Socket::process;dns::Socket::start_query;wire::dns::Packet::parse_name;wire::dns::Question::parse;wire::dns::Record::parse;wire::dns::RecordData::parse;dns::eq_names;dns::copy_name bounds=query_name_<1>x<1>y_with_symbolic_label_bytes,_type_A_or_AAAA,_txid/port/timers_symbolic;_response_=_byte_template_with_symbolic_id/flags/QDCOUNT/ANCOUNT/NSCOUNT/ARCOUNT,_question_<1>x<1>y_with_symbolic_label_bytes_and_TYPE,_concrete_record_layout_per_arm_with_symbolic_TTL/RDATA;_source_any_IPv4_or_2001:db8::x,_ports_any;_arms:_the_single_answer_record_(owner_0xc00c)_is_a_CNAME_with_RDATA_<2>xx<0>_/_an_NS_record
    #[kani::proof]
    pub(crate) fn dns_process_no_address() {
        let (sel, o) = one_of!(Form { rd: [Rd::CnameInline, Rd::A], ..F_ONE }, Form { rd: [Rd::Other, Rd::A], ..F_ONE });
        assert!(!o.completed, "prop:c19_no_completion_without_address_record");
        kani::cover!(sel == 0 && o.failed && o.rcode == 0 && o.cname_followed, "lone CNAME (inline target) failed the query");
        kani::cover!(sel == 1 && o.failed && o.rcode == 0 && o.an == 1, "NS answer failed the query");
    }

    // @harness props=C19,C03:t cfg=KN tier=q to=900 mem=8 unwind=7 opts=nomem covers=2 funcs=dns::Socket::accepts;dns::Socket::process;dns::Socket::start_query;wire::dns::Packet::parse_name;wire::dns::Question::parse;wire::dns::Record::parse;wire::dns::RecordData::parse;dns::eq_names;dns::copy_name bounds=query_name_<1>x<1>y_with_symbolic_label_bytes,_type_A_or_AAAA,_txid/port/timers_symbolic;_response_=_byte_template_with_symbolic_id/flags/QDCOUNT/ANCOUNT/NSCOUNT/ARCOUNT,_question_<1>x<1>y_with_symbolic_label_bytes_and_TYPE,_concrete_record_layout_per_arm_with_symbolic_TTL/RDATA;_source_any_IPv4_or_2001:db8::x,_ports_any;_one_A_record_whose_owner_is_written_inline_<1>x<1>y<0>_with_symbolic_label_bytes
    #[kani::proof]
    pub(crate) fn dns_process_inline() {
        let o = process_form(Form { o: [Owner::Inline, Owner::Inline], complete: true, ..F_ONE });
        kani::cover!(o.completed && o.naddr == 1, "query completed from inline owner name");
        kani::cover!(o.failed && o.other_name && o.rcode == 0, "record for another name ignored");
    }

    // @harness props=C19,C03:t,C07 cfg=KN tier=q to=900 mem=8 unwind=7 opts=nomem covers=3 funcs=dns::Socket::accepts;dns::Socket::process;dns::Socket::start_query;wire::dns::Packet::parse_name;wire::dns::Question::parse;wire::dns::Record::parse;wire::dns::RecordData::parse;dns::eq_names;dns::copy_name bounds=query_name_<1>x<1>y_with_symbolic_label_bytes,_type_A_or_AAAA,_txid/port/timers_symbolic;_response_=_byte_template_with_symbolic_id/flags/QDCOUNT/ANCOUNT/NSCOUNT/ARCOUNT,_question_<1>x<1>y_with_symbolic_label_bytes_and_TYPE,_concrete_record_layout_per_arm_with_symbolic_TTL/RDATA;_source_any_IPv4_or_2001:db8::x,_ports_any;_arms:_one_A_record_whose_owner_is_<1>x+pointer_to_the_question's_last_label_/_<1>x+pointer_to_itself
    #[kani::proof]
    pub(crate) fn dns_process_labelptr() {
        let (sel, o) = one_of!(Form { o: [Owner::LabelPtr(QSUF_OFF), Owner::Inline], complete: true, ..F_ONE }, Form { o: [Owner::LabelPtr(SELF), Owner::Inline], ..F_ONE });
        if sel == 1 {
            assert!(!o.completed, "prop:c19_pointer_loop_never_completes_query");
        }
        kani::cover!(sel == 0 && o.completed, "completed through label + pointer to the question's last label");
        kani::cover!(sel == 0 && o.failed && o.other_name && o.rcode == 0, "label + pointer spelling another name ignored");
        kani::cover!(sel == 1 && o.acc && o.id_ok && o.port_ok && o.question_ok && o.qr && o.an == 1 && !o.failed, "label + pointer loop: response dropped");
    }

    // @harness props=C19,C03:t,C07 cfg=KN tier=q to=900 mem=8 unwind=7 opts=nomem covers=2 funcs=dns::Socket::accepts;dns::Socket::process;dns::Socket::start_query;wire::dns::Packet::parse_name;wire::dns::Question::parse;wire::dns::Record::parse;wire::dns::RecordData::parse;dns::eq_names;dns::copy_name bounds=query_name_<1>x<1>y_with_symbolic_label_bytes,_type_A_or_AAAA,_txid/port/timers_symbolic;_response_=_byte_template_with_symbolic_id/flags/QDCOUNT/ANCOUNT/NSCOUNT/ARCOUNT,_question_<1>x<1>y_with_symbolic_label_bytes_and_TYPE,_concrete_record_layout_per_arm_with_symbolic_TTL/RDATA;_source_any_IPv4_or_2001:db8::x,_ports_any;_arms:_one_A_record_whose_owner_is_a_compression_pointer_to_itself_/_to_the_question's_last_label
    #[kani::proof]
    pub(crate) fn dns_process_ptr_self_suffix() {
        let (sel, o) = one_of!(Form { o: [Owner::Ptr(SELF), Owner::Inline], ..F_ONE }, Form { o: [Owner::Ptr(QSUF_OFF), Owner::Inline], ..F_ONE });
        if sel == 0 {
            assert!(!o.completed, "prop:c19_pointer_loop_never_completes_query");
        }
        kani::cover!(sel == 0 && o.acc && o.id_ok && o.port_ok && o.question_ok && o.qr && o.an == 1 && !o.failed, "self-pointer: response dropped, query still pending");
        kani::cover!(sel == 1 && o.failed && o.rcode == 0 && o.other_name, "pointer to a suffix of the question name ignored");
    }

    // @harness props=C19,C03:t,C07 cfg=KN tier=q to=900 mem=8 unwind=7 opts=nomem covers=2 funcs=dns::Socket::accepts;dns::Socket::process;dns::Socket::start_query;wire::dns::Packet::parse_name;wire::dns::Question::parse;wire::dns::Record::parse;wire::dns::RecordData::parse;dns::eq_names;dns::copy_name bounds=query_name_<1>x<1>y_with_symbolic_label_bytes,_type_A_or_AAAA,_txid/port/timers_symbolic;_response_=_byte_template_with_symbolic_id/flags/QDCOUNT/ANCOUNT/NSCOUNT/ARCOUNT,_question_<1>x<1>y_with_symbolic_label_bytes_and_TYPE,_concrete_record_layout_per_arm_with_symbolic_TTL/RDATA;_source_any_IPv4_or_2001:db8::x,_ports_any;_one_A_record_whose_owner_is_a_compression_pointer_to_the_question's_root_octet
    #[kani::proof]
    pub(crate) fn dns_process_ptr_root() {
        let o = process_form(Form { o: [Owner::Ptr(QROOT_OFF), Owner::Inline], ..F_ONE });
        assert!(!o.completed, "prop:c19_record_of_root_name_never_completes_query");
        kani::cover!(o.failed && o.rcode == 0 && o.other_name, "pointer to the root name ignored");
        kani::cover!(o.failed && o.rcode == 3, "NXDomain failed the query");
    }

    // (removed: dns_process_ptr_forward - an owner name that is a compression pointer to a later offset (forward pointer) -
    // ran out of 12 and of 16 GB in the thorough tier; forward and out-of-range pointers in names are decided at the
    // wire level by dns_name_iter_free / dns_name_parsers_free / view_dns_name_step, and dns_process_ptr_out_of_range
    // covers the socket-level handling of a pointer beyond the message.)

    // @harness props=C19,C03:t,C07 cfg=KN tier=q to=900 mem=10 unwind=7 opts=nomem covers=2 funcs=dns::Socket::accepts;dns::Socket::process;dns::Socket::start_query;wire::dns::Packet::parse_name;wire::dns::Question::parse;wire::dns::Record::parse;wire::dns::RecordData::parse;dns::eq_names;dns::copy_name bounds=query_name_<1>x<1>y_with_symbolic_label_bytes,_type_A_or_AAAA,_txid/port/timers_symbolic;_response_=_byte_template_with_symbolic_id/flags/QDCOUNT/ANCOUNT/NSCOUNT/ARCOUNT,_question_<1>x<1>y_with_symbolic_label_bytes_and_TYPE,_concrete_record_layout_per_arm_with_symbolic_TTL/RDATA;_source_any_IPv4_or_2001:db8::x,_ports_any;_one_A_record_whose_owner_is_a_compression_pointer_to_offset_0_(the_symbolic_message_id_read_as_a_name)
    #[kani::proof]
    pub(crate) fn dns_process_ptr_header() {
        let o = process_form(Form { o: [Owner::Ptr(0), Owner::Inline], ..F_ONE });
        kani::cover!(o.failed && o.rcode == 0, "pointer to the header: other name ignored");
        kani::cover!(o.acc && o.id_ok && o.port_ok && o.question_ok && o.qr && o.an == 1 && !o.failed && !o.completed, "pointer to a malformed name in the header: response dropped");
    }

    // @harness props=C19,C03,C07 cfg=KN tier=q to=900 mem=8 unwind=7 opts=nomem covers=2 funcs=dns::Socket::accepts;dns::Socket::process;dns::Socket::start_query;wire::dns::Packet::parse_name;wire::dns::Question::parse;wire::dns::Record::parse;wire::dns::RecordData::parse;dns::eq_names;dns::copy_name bounds=query_name_<1>x<1>y_with_symbolic_label_bytes,_type_A_or_AAAA,_txid/port/timers_symbolic;_response_=_byte_template_with_symbolic_id/flags/QDCOUNT/ANCOUNT/NSCOUNT/ARCOUNT,_question_<1>x<1>y_with_symbolic_label_bytes_and_TYPE,_concrete_record_layout_per_arm_with_symbolic_TTL/RDATA;_source_any_IPv4_or_2001:db8::x,_ports_any;_arms:_one_A_record_whose_owner_is_a_compression_pointer_to_the_first_offset_beyond_the_message_/_to_0x3fff
    #[kani::proof]
    pub(crate) fn dns_process_ptr_out_of_range() {
        let (sel, o) = one_of!(Form { o: [Owner::Ptr(ANS_OFF + 16), Owner::Inline], ..F_ONE }, Form { o: [Owner::Ptr(0x3fff), Owner::Inline], ..F_ONE });
        assert!(!o.completed, "prop:c19_out_of_range_pointer_never_completes_query");
        kani::cover!(sel == 0 && o.acc && o.id_ok && o.port_ok && o.question_ok && o.qr && o.an == 1 && !o.failed, "pointer beyond the message: response dropped");
        kani::cover!(sel == 1 && o.acc && o.id_ok && o.port_ok && o.question_ok && o.qr && o.an == 1 && !o.failed, "pointer to 0x3fff: response dropped");
    }

    // @harness props=C19,C03:t cfg=KN tier=q to=900 mem=8 unwind=7 opts=nomem covers=1 funcs=dns::Socket::accepts;dns::Socket::process;dns::Socket::start_query;wire::dns::Packet::parse_name;wire::dns::Question::parse;wire::dns::Record::parse;wire::dns::RecordData::parse;dns::eq_names;dns::copy_name bounds=query_name_<1>x<1>y_with_symbolic_label_bytes,_type_A_or_AAAA,_txid/port/timers_symbolic;_response_=_byte_template_with_symbolic_id/flags/QDCOUNT/ANCOUNT/NSCOUNT/ARCOUNT,_question_<1>x<1>y_with_symbolic_label_bytes_and_TYPE,_concrete_record_layout_per_arm_with_symbolic_TTL/RDATA;_source_any_IPv4_or_2001:db8::x,_ports_any;_CNAME_owned_by_0xc00c_(RDATA_<1>x+pointer_to_the_question's_last_label)_then_an_A_record_owned_by_a_pointer_to_that_RDATA
    #[kani::proof]
    pub(crate) fn dns_process_cname_then() {
        let o = process_form(Form { o: [Owner::Ptr(QN_OFF), Owner::Ptr(RD1)], rd: [Rd::CnameLabelPtr(QSUF_OFF), Rd::A], ..F_TWO });
        kani::cover!(o.completed && o.cname_followed && o.naddr == 1, "CNAME followed");
    }

    // @harness props=C19,C03:t cfg=KN tier=q to=900 mem=8 unwind=7 opts=nomem covers=1 funcs=dns::Socket::accepts;dns::Socket::process;dns::Socket::start_query;wire::dns::Packet::parse_name;wire::dns::Question::parse;wire::dns::Record::parse;wire::dns::RecordData::parse;dns::eq_names;dns::copy_name bounds=query_name_<1>x<1>y_with_symbolic_label_bytes,_type_A_or_AAAA,_txid/port/timers_symbolic;_response_=_byte_template_with_symbolic_id/flags/QDCOUNT/ANCOUNT/NSCOUNT/ARCOUNT,_question_<1>x<1>y_with_symbolic_label_bytes_and_TYPE,_concrete_record_layout_per_arm_with_symbolic_TTL/RDATA;_source_any_IPv4_or_2001:db8::x,_ports_any;_CNAME_owned_by_0xc00c_then_an_A_record_owned_by_0xc00c_(the_original_name)
    #[kani::proof]
    pub(crate) fn dns_process_cname_then_original() {
        let o = process_form(Form { o: [Owner::Ptr(QN_OFF), Owner::Ptr(QN_OFF)], rd: [Rd::CnameLabelPtr(QSUF_OFF), Rd::A], ..F_TWO });
        kani::cover!(o.failed && o.cname_followed && o.other_name && o.rcode == 0, "record for the original name after a CNAME ignored");
    }

    // @harness props=C19,C03:t cfg=KN tier=q to=900 mem=8 unwind=7 opts=nomem covers=1 funcs=dns::Socket::accepts;dns::Socket::process;dns::Socket::start_query;wire::dns::Packet::parse_name;wire::dns::Question::parse;wire::dns::Record::parse;wire::dns::RecordData::parse;dns::eq_names;dns::copy_name bounds=query_name_<1>x<1>y_with_symbolic_label_bytes,_type_A_or_AAAA,_txid/port/timers_symbolic;_response_=_byte_template_with_symbolic_id/flags/QDCOUNT/ANCOUNT/NSCOUNT/ARCOUNT,_question_<1>x<1>y_with_symbolic_label_bytes_and_TYPE,_concrete_record_layout_per_arm_with_symbolic_TTL/RDATA;_source_any_IPv4_or_2001:db8::x,_ports_any;_CNAME_owned_by_0xc00c_with_RDATA_<2>xx<0>_then_an_A_record_with_inline_owner_<1>x<1>y<0>
    #[kani::proof]
    pub(crate) fn dns_process_cname_inline() {
        let o = process_form(Form { o: [Owner::Ptr(QN_OFF), Owner::Inline], rd: [Rd::CnameInline, Rd::A], ..F_TWO });
        kani::cover!(o.failed && o.cname_followed && o.rcode == 0, "address for a name other than the CNAME target ignored");
    }

    // @harness props=C19,C03:t,C07 cfg=KN tier=q to=900 mem=8 unwind=7 opts=nomem covers=1 funcs=dns::Socket::accepts;dns::Socket::process;dns::Socket::start_query;wire::dns::Packet::parse_name;wire::dns::Question::parse;wire::dns::Record::parse;wire::dns::RecordData::parse;dns::eq_names;dns::copy_name bounds=query_name_<1>x<1>y_with_symbolic_label_bytes,_type_A_or_AAAA,_txid/port/timers_symbolic;_response_=_byte_template_with_symbolic_id/flags/QDCOUNT/ANCOUNT/NSCOUNT/ARCOUNT,_question_<1>x<1>y_with_symbolic_label_bytes_and_TYPE,_concrete_record_layout_per_arm_with_symbolic_TTL/RDATA;_source_any_IPv4_or_2001:db8::x,_ports_any;_CNAME_owned_by_0xc00c_with_RDATA_<1>x+pointer_to_the_question_name_(three_labels)_then_an_A_record_owned_by_a_pointer_to_that_RDATA
    #[kani::proof]
    pub(crate) fn dns_process_cname_long() {
        let o = process_form(Form { o: [Owner::Ptr(QN_OFF), Owner::Ptr(RD1)], rd: [Rd::CnameLabelPtr(QN_OFF), Rd::A], ..F_TWO });
        kani::cover!(o.completed && o.cname_followed, "CNAME to a three-label name followed");
    }

    // @harness props=C19,C03:t,C07 cfg=KN tier=q to=900 mem=16 unwind=7 opts=nomem covers=1 funcs=dns::Socket::accepts;dns::Socket::process;dns::Socket::start_query;wire::dns::Packet::parse_name;wire::dns::Question::parse;wire::dns::Record::parse;wire::dns::RecordData::parse;dns::eq_names;dns::copy_name bounds=query_name_<1>x<1>y_with_symbolic_label_bytes,_type_A_or_AAAA,_txid/port/timers_symbolic;_response_=_byte_template_with_symbolic_id/flags/QDCOUNT/ANCOUNT/NSCOUNT/ARCOUNT,_question_<1>x<1>y_with_symbolic_label_bytes_and_TYPE,_concrete_record_layout_per_arm_with_symbolic_TTL/RDATA;_source_any_IPv4_or_2001:db8::x,_ports_any;_CNAME_owned_by_0xc00c_with_RDATA_<1>x+pointer_to_itself_then_an_A_record_owned_by_a_pointer_to_that_RDATA
    #[kani::proof]
    pub(crate) fn dns_process_cname_loop() {
        let o = process_form(Form { o: [Owner::Ptr(QN_OFF), Owner::Ptr(RD1)], rd: [Rd::CnameLabelPtr(SELF), Rd::A], ..F_TWO });
        assert!(!o.completed, "prop:c19_pointer_loop_never_completes_query");
        kani::cover!(o.acc && o.id_ok && o.port_ok && o.question_ok && o.qr && o.an == 2 && !o.completed && !o.failed, "CNAME pointing at itself: response dropped");
    }

    // @harness props=C19,C03:t cfg=KN tier=q to=900 mem=8 unwind=7 opts=nomem covers=2 funcs=dns::Socket::accepts;dns::Socket::process;dns::Socket::start_query;wire::dns::Packet::parse_name;wire::dns::Question::parse;wire::dns::Record::parse;wire::dns::RecordData::parse;dns::eq_names;dns::copy_name bounds=query_name_<1>x<1>y_with_symbolic_label_bytes,_type_A_or_AAAA,_txid/port/timers_symbolic;_response_=_byte_template_with_symbolic_id/flags/QDCOUNT/ANCOUNT/NSCOUNT/ARCOUNT,_question_<1>x<1>y_with_symbolic_label_bytes_and_TYPE,_concrete_record_layout_per_arm_with_symbolic_TTL/RDATA;_source_any_IPv4_or_2001:db8::x,_ports_any;_two_A_records_owned_by_0xc00c
    #[kani::proof]
    pub(crate) fn dns_process_two_a() {
        let o = process_form(F_TWO);
        kani::cover!(o.completed && o.naddr == 2, "query completed with two addresses");
        kani::cover!(o.completed && o.an == 1, "record beyond ANCOUNT not used");
    }

    // @harness props=C19,C03:t cfg=KN tier=q to=900 mem=8 unwind=7 opts=nomem covers=1 funcs=dns::Socket::accepts;dns::Socket::process;dns::Socket::start_query;wire::dns::Packet::parse_name;wire::dns::Question::parse;wire::dns::Record::parse;wire::dns::RecordData::parse;dns::eq_names;dns::copy_name bounds=query_name_<1>x<1>y_with_symbolic_label_bytes,_type_A_or_AAAA,_txid/port/timers_symbolic;_response_=_byte_template_with_symbolic_id/flags/QDCOUNT/ANCOUNT/NSCOUNT/ARCOUNT,_question_<1>x<1>y_with_symbolic_label_bytes_and_TYPE,_concrete_record_layout_per_arm_with_symbolic_TTL/RDATA;_source_any_IPv4_or_2001:db8::x,_ports_any;_A_record_owned_by_0xc00c_then_A_record_with_inline_owner_<1>x<1>y<0>
    #[kani::proof]
    pub(crate) fn dns_process_two_other_name() {
        let o = process_form(Form { o: [Owner::Ptr(QN_OFF), Owner::Inline], ..F_TWO });
        kani::cover!(o.completed && o.naddr == 1 && o.other_name && o.an == 2, "second record for another name ignored");
    }

    // @harness props=C19,C03:t cfg=KN tier=q to=900 mem=8 unwind=7 opts=nomem covers=1 funcs=dns::Socket::accepts;dns::Socket::process;dns::Socket::start_query;wire::dns::Packet::parse_name;wire::dns::Question::parse;wire::dns::Record::parse;wire::dns::RecordData::parse;dns::eq_names;dns::copy_name bounds=query_name_<1>x<1>y_with_symbolic_label_bytes,_type_A_or_AAAA,_txid/port/timers_symbolic;_response_=_byte_template_with_symbolic_id/flags/QDCOUNT/ANCOUNT/NSCOUNT/ARCOUNT,_question_<1>x<1>y_with_symbolic_label_bytes_and_TYPE,_concrete_record_layout_per_arm_with_symbolic_TTL/RDATA;_source_any_IPv4_or_2001:db8::x,_ports_any;_NS_record_then_A_record,_both_owned_by_0xc00c
    #[kani::proof]
    pub(crate) fn dns_process_ns_then_a() {
        let o = process_form(Form { rd: [Rd::Other, Rd::A], ..F_TWO });
        kani::cover!(o.completed && o.naddr == 1, "NS record skipped, address taken");
    }

    // (removed: dns_process_two_records_mixed - an A and an AAAA record, or two AAAA records, need 65 / 77 template octets and
    // overran the 64-octet template buffer in the harness itself (caught by the thorough sweep as a native panic in harness
    // code, not in smoltcp); "only records of the requested type are taken" is decided by dns_process_ptrq_a / _aaaa.)

    // @harness props=C19,C03:t cfg=KN tier=q to=900 mem=8 unwind=7 opts=nomem covers=2 funcs=dns::Socket::accepts;dns::Socket::process;dns::Socket::start_query;wire::dns::Packet::parse_name;wire::dns::Question::parse;wire::dns::Record::parse;wire::dns::RecordData::parse;dns::eq_names;dns::copy_name bounds=query_name_<1>x<1>y_with_symbolic_label_bytes,_type_A_or_AAAA,_txid/port/timers_symbolic;_response_=_byte_template_with_symbolic_id/flags/QDCOUNT/ANCOUNT/NSCOUNT/ARCOUNT,_question_with_symbolic_label_bytes_and_TYPE,_concrete_record_layout_per_arm_with_symbolic_TTL/RDATA;_source_any_IPv4_or_2001:db8::x,_ports_any;_arms:_the_response's_question_name_is_<1>x<0>_(strict_prefix_of_the_queried_label_sequence)_/_<1>x<1>y<1>z<0>_(strict_extension),_followed_by_an_A_record_owned_by_0xc00c
    #[kani::proof]
    pub(crate) fn dns_process_question_prefix_ext() {
        let (sel, o) = one_of!(Form { qshape: 1, ..F_ONE }, Form { qshape: 2, ..F_ONE });
        assert!(!o.completed, "prop:c19_completes_only_if_question_name_repeated");
        kani::cover!(sel == 0 && o.acc && o.id_ok && o.port_ok && o.qr && o.an == 1 && !o.failed, "question naming a prefix of the queried name: response dropped");
        kani::cover!(sel == 1 && o.acc && o.id_ok && o.port_ok && o.qr && o.an == 1 && !o.failed, "question naming an extension of the queried name: response dropped");
    }

    // @harness props=C19,C03:t cfg=KN tier=q to=900 mem=8 unwind=7 opts=nomem covers=2 funcs=dns::Socket::accepts;dns::Socket::process;dns::Socket::start_query;wire::dns::Packet::parse_name;wire::dns::Question::parse;wire::dns::Record::parse;wire::dns::RecordData::parse;dns::eq_names;dns::copy_name bounds=query_name_<1>x<1>y_with_symbolic_label_bytes,_type_A_or_AAAA,_txid/port/timers_symbolic;_response_=_byte_template_with_symbolic_id/flags/QDCOUNT/ANCOUNT/NSCOUNT/ARCOUNT,_question_with_symbolic_label_bytes_and_TYPE,_concrete_record_layout_per_arm_with_symbolic_TTL/RDATA;_source_any_IPv4_or_2001:db8::x,_ports_any;_arms:_one_A_record_whose_owner_is_<1>x+pointer_to_the_question's_root_octet_(strict_prefix_of_the_queried_label_sequence)_/_inline_<1>x<1>y<1>z<0>_(strict_extension)
    #[kani::proof]
    pub(crate) fn dns_process_owner_prefix_ext() {
        let (sel, o) = one_of!(Form { o: [Owner::LabelPtr(QROOT_OFF), Owner::Inline], ..F_ONE }, Form { o: [Owner::InlineExt, Owner::Inline], ..F_ONE });
        assert!(!o.completed, "prop:c19_record_of_prefix_or_extension_name_never_completes_query");
        kani::cover!(sel == 0 && o.failed && o.rcode == 0 && o.other_name && o.an == 1, "record owned by a prefix of the queried name ignored");
        kani::cover!(sel == 1 && o.failed && o.rcode == 0 && o.other_name && o.an == 1, "record owned by an extension of the queried name ignored");
    }

    // @harness props=C19,C03:t,C07 cfg=KN tier=q to=900 mem=8 unwind=7 opts=nomem covers=2 funcs=dns::Socket::accepts;dns::Socket::process;dns::Socket::start_query;wire::dns::Packet::parse_name;wire::dns::Question::parse;wire::dns::Record::parse;wire::dns::RecordData::parse;dns::eq_names;dns::copy_name bounds=query_name_<1>x<1>y_with_symbolic_label_bytes,_type_A_or_AAAA,_txid/port/timers_symbolic;_response_=_byte_template_with_symbolic_id/flags/QDCOUNT/ANCOUNT/NSCOUNT/ARCOUNT,_question_<1>x<1>y_with_symbolic_label_bytes_and_TYPE,_concrete_record_layout_per_arm_with_symbolic_TTL/RDATA;_source_any_IPv4_or_2001:db8::x,_ports_any;_arms:_dns_process_ptrq_a's_template_with_question_CLASS_2_/_record_CLASS_2
    #[kani::proof]
    pub(crate) fn dns_process_bad_class() {
        let (sel, o) = one_of!(Form { qclass: 2, ..F_ONE }, Form { class: [2, 1], ..F_ONE });
        assert!(!o.completed, "prop:c19_malformed_response_never_completes_query");
        kani::cover!(sel == 0 && o.acc && o.id_ok && o.port_ok && o.qr && o.an == 1 && !o.failed, "question of another class: response dropped");
        kani::cover!(sel == 1 && o.acc && o.id_ok && o.port_ok && o.question_ok && o.qr && o.an == 1 && !o.failed, "record of another class: response dropped");
    }

    // @harness props=C19,C03,C07 cfg=KN tier=q to=900 mem=8 unwind=7 opts=nomem covers=2 funcs=dns::Socket::accepts;dns::Socket::process;dns::Socket::start_query;wire::dns::Packet::parse_name;wire::dns::Question::parse;wire::dns::Record::parse;wire::dns::RecordData::parse;dns::eq_names;dns::copy_name bounds=query_name_<1>x<1>y_with_symbolic_label_bytes,_type_A_or_AAAA,_txid/port/timers_symbolic;_response_=_byte_template_with_symbolic_id/flags/QDCOUNT/ANCOUNT/NSCOUNT/ARCOUNT,_question_<1>x<1>y_with_symbolic_label_bytes_and_TYPE,_concrete_record_layout_per_arm_with_symbolic_TTL/RDATA;_source_any_IPv4_or_2001:db8::x,_ports_any;_arms:_dns_process_ptrq_a's_template_with_RDLENGTH_3_/_RDLENGTH_5_for_the_A_record
    #[kani::proof]
    pub(crate) fn dns_process_bad_rdlength() {
        let (sel, o) = one_of!(Form { rdlen_delta: [-1, 0], ..F_ONE }, Form { rdlen_delta: [1, 0], ..F_ONE });
        assert!(!o.completed, "prop:c19_malformed_response_never_completes_query");
        kani::cover!(sel == 0 && o.acc && o.id_ok && o.port_ok && o.question_ok && o.qr && o.an == 1 && !o.failed, "A record with 3 RDATA bytes: response dropped");
        kani::cover!(sel == 1 && o.acc && o.id_ok && o.port_ok && o.question_ok && o.qr && o.an == 1 && !o.failed, "RDLENGTH beyond the message: response dropped");
    }

    // @harness props=C19,C03,C07 cfg=KN tier=q to=900 mem=8 unwind=7 opts=nomem covers=4 funcs=dns::Socket::accepts;dns::Socket::process;dns::Socket::start_query;wire::dns::Packet::parse_name;wire::dns::Question::parse;wire::dns::Record::parse;wire::dns::RecordData::parse;dns::eq_names;dns::copy_name bounds=query_name_<1>x<1>y_with_symbolic_label_bytes,_type_A_or_AAAA,_txid/port/timers_symbolic;_response_=_byte_template_with_symbolic_id/flags/QDCOUNT/ANCOUNT/NSCOUNT/ARCOUNT,_question_<1>x<1>y_with_symbolic_label_bytes_and_TYPE,_concrete_record_layout_per_arm_with_symbolic_TTL/RDATA;_source_any_IPv4_or_2001:db8::x,_ports_any;_arms:_dns_process_ptrq_a's_template_cut_to_11_/_12_/_20_/_21_/_32_/_36_of_its_37_bytes_(measured_through_the_runner:_327_s_on_the_loaded_machine)
    #[kani::proof]
    pub(crate) fn dns_process_truncated() {
        let (sel, o) = one_of!(
            Form { cut: 11, ..F_ONE },
            Form { cut: 12, ..F_ONE },
            Form { cut: ANS_OFF - 1, ..F_ONE },
            Form { cut: ANS_OFF, ..F_ONE },
            Form { cut: ANS_OFF + 11, ..F_ONE },
            Form { cut: ANS_OFF + 15, ..F_ONE },
        );
        assert!(!o.completed, "prop:c19_malformed_response_never_completes_query");
        kani::cover!(sel == 0 && o.acc && !o.failed, "message shorter than a header dropped");
        kani::cover!(sel == 1 && o.failed && o.rcode == 3, "NXDomain in a bare header fails the query");
        kani::cover!(sel == 3 && o.failed && o.rcode == 0 && o.an == 0, "question-only response fails the query");
        kani::cover!(sel == 5 && o.acc && o.id_ok && o.port_ok && o.question_ok && o.qr && o.an == 1 && !o.failed, "truncated RDATA: response dropped");
    }

    // @harness props=C19 kind=mustfail cfg=KN tier=q to=900 mem=8 unwind=7 opts=nomem
    #[kani::proof]
    pub(crate) fn dns_process_must_fail() {
        let o = process_form(F_ONE);
        assert!(!o.completed, "prop:deliberately_false_no_response_completes_a_query");
    }

    // `accepts` alone, with IPv4 and IPv6 servers (comparing IPv6 addresses needs unwind 17)
    // @harness props=C19 cfg=KN tier=q to=600 mem=4 unwind=18 opts=nomem covers=3 funcs=dns::Socket::accepts bounds=servers_8.8.8.8_and_2001:db8::53;_source_any_IPv4_address_or_any_IPv6_address,_ports_any
    #[kani::proof]
    pub(crate) fn dns_accepts() {
        let mut slots: [Option<DnsQuery>; 1 + PAD] = [None, None, None];
        let servers = [IpAddress::Ipv4(S4), IpAddress::Ipv6(S6)];
        let s = Socket::new(&servers[..], &mut slots[..1]);
        let sport: u16 = kani::any();
        let dport: u16 = kani::any();
        let v4: bool = kani::any();
        let so: [u8; 16] = kani::any();
        let ip_repr = if v4 {
            IpRepr::Ipv4(Ipv4Repr { src_addr: Ipv4Address::new(so[0], so[1], so[2], so[3]), dst_addr: LOCAL4, next_header: IpProtocol::Udp, payload_len: 20, hop_limit: 64 })
        } else {
            IpRepr::Ipv6(Ipv6Repr { src_addr: Ipv6Address::from_octets(so), dst_addr: LOCAL6, next_header: IpProtocol::Udp, payload_len: 20, hop_limit: 64 })
        };
        let s6 = S6.octets();
        let is_s6 = so[0] == s6[0] && so[1] == s6[1] && so[2] == s6[2] && so[3] == s6[3] && so[4] == s6[4] && so[5] == s6[5] && so[6] == s6[6] && so[7] == s6[7]
            && so[8] == s6[8] && so[9] == s6[9] && so[10] == s6[10] && so[11] == s6[11] && so[12] == s6[12] && so[13] == s6[13] && so[14] == s6[14] && so[15] == s6[15];
        let from_server = if v4 { so[0] == 8 && so[1] == 8 && so[2] == 8 && so[3] == 8 } else { is_s6 };
        let acc = s.accepts(&ip_repr, &UdpRepr { src_port: sport, dst_port: dport });
        assert!(acc == ((sport == 53 && from_server) || sport == 5353), "prop:c19_accepts_only_port_53_of_configured_server_or_mdns_port");
        kani::cover!(acc && !v4 && sport == 53, "IPv6 server accepted");
        kani::cover!(!acc && sport == 53 && !v4, "port 53 of another IPv6 host refused");
        kani::cover!(acc && sport == 5353 && !from_server, "mDNS port accepted from anyone");
    }

    // ------------------------------------------------------------------ free bytes through the name parsers
    // Termination bound of `Packet::parse_name` on an N-byte message: every pointer jump needs >= 2 readable bytes and
    // cuts the readable prefix to `packet[..ptr]` with `ptr < packet.len()`, so consecutive jump targets fall by >= 2:
    // <= N/2+1 iterations of the inner loop per `next()`; every label consumes >= 2 bytes of a region and the regions
    // after a jump are disjoint: <= N labels in total.  `parse_name_part` consumes >= 1 byte per iteration.
    // Sizes: measured, 16 free bytes through the iterator exhaust 8 GB (the `Option<Result<&[u8]>>` items merge
    // under symbolic conditions); 8 bytes through the iterator, 16 through Question/Record::parse are decided.
    // @harness props=C19,C07,C03 cfg=KN tier=q to=900 mem=6 unwind=8 opts=term covers=3 funcs=wire::dns::Packet::parse_name bounds=message_of_0..=6_fully_symbolic_bytes;_name_iterated_from_any_offset;_unwind_8_=_N+2_(each_pointer_jump_shrinks_the_readable_prefix_by_>=2_bytes,_each_label_consumes_>=2_bytes)
    #[kani::proof]
    pub(crate) fn dns_name_iter_free() {
        name_iter_free::<6>();
    }

    // measured alone: 413 s, 5 GB
    // @harness props=C19,C07,C03:t cfg=KN tier=t to=1800 mem=8 unwind=10 opts=term covers=3 funcs=wire::dns::Packet::parse_name bounds=message_of_0..=8_fully_symbolic_bytes;_name_iterated_from_any_offset;_unwind_10_=_N+2
    #[kani::proof]
    pub(crate) fn dns_name_iter_free8() {
        name_iter_free::<8>();
    }

    fn name_iter_free<const N: usize>() {
        let bytes: [u8; N] = kani::any();
        let len = any_le(N);
        let buf = &bytes[..len];
        let p = Packet::new_unchecked(buf);
        let start = any_le(len);
        let mut labels = 0usize;
        let mut label_bytes = 0usize;
        let mut errored = false;
        {
            let mut it = p.parse_name(&buf[start..]);
            // no explicit bound: the unwinding assertion of this loop (and of the loop inside next()) is the claim
            loop {
                match it.next() {
                    None => break,
                    Some(Err(_)) => {
                        errored = true;
                        break;
                    }
                    Some(Ok(l)) => {
                        assert!(l.len() >= 1 && l.len() <= 63, "prop:c07_dns_label_length_1_to_63");
                        labels += 1;
                        label_bytes += 1 + l.len();
                    }
                }
            }
        }
        assert!(label_bytes <= 2 * len, "prop:c07_dns_name_bytes_bounded_by_message");
        kani::cover!(start < len && !errored && labels >= 2 && bytes[start] >= 0xc0, "compressed name of two labels iterated");
        kani::cover!(errored && len >= 2 && start + 1 < len && bytes[start] == 0xc0 && bytes[start + 1] as usize == start, "self-pointer rejected");
        kani::cover!(errored && len == N && start == 0 && bytes[0] == 0xc0 && bytes[1] == 2 && bytes[2] == 0xc0 && bytes[3] == 4, "forward pointer to a forward pointer rejected");
    }

    // @harness props=C19,C07,C03 cfg=KN tier=q to=900 mem=8 unwind=18 opts=term covers=3 funcs=wire::dns::Question::parse;wire::dns::Record::parse;wire::dns::RecordData::parse;wire::dns::parse_name_part bounds=0..=16_fully_symbolic_bytes_parsed_as_a_question_and_as_a_resource_record;_unwind_18_=_N+2_(parse_name_part_consumes_>=1_byte_per_iteration)
    #[kani::proof]
    pub(crate) fn dns_name_parsers_free() {
        const N: usize = 16;
        let bytes: [u8; N] = kani::any();
        let len = any_le(N);
        let buf = &bytes[..len];
        let mut q_ok = false;
        if let Ok((rest, q)) = Question::parse(buf) {
            q_ok = true;
            assert!(q.name.len() >= 1 && q.name.len() + 4 + rest.len() == len, "prop:c07_dns_question_accounts_for_every_byte");
        }
        let mut r_ok = false;
        let mut r_a = false;
        if let Ok((rest, r)) = Record::parse(buf) {
            r_ok = true;
            let dl = match r.data {
                RecordData::A(_) => {
                    r_a = true;
                    4
                }
                RecordData::Aaaa(_) => 16,
                RecordData::Cname(d) => d.len(),
                RecordData::Other(_, d) => d.len(),
            };
            assert!(r.name.len() >= 1 && r.name.len() + 10 + dl + rest.len() == len, "prop:c07_dns_record_accounts_for_every_byte");
        }
        kani::cover!(q_ok && len == N && bytes[0] == 3, "question parsed");
        kani::cover!(r_ok && r_a, "A record parsed");
        kani::cover!(!q_ok && !r_ok && len == N, "16 bytes rejected by both parsers");
    }

    // (8 bytes, and 6 bytes followed by eq_names(copy, original): out of memory at 8 GB after 350 s)
    // @harness props=C19,C07,C03:t cfg=KN tier=q to=900 mem=8 unwind=8 opts=term covers=3 funcs=dns::copy_name;wire::dns::Packet::parse_name bounds=message_of_0..=6_fully_symbolic_bytes;_name_at_any_offset_copied_into_a_64-byte_name_buffer;_unwind_8_=_N+2
    #[kani::proof]
    pub(crate) fn dns_name_copy_free() {
        const N: usize = 6;
        let bytes: [u8; N] = kani::any();
        let len = any_le(N);
        let buf = &bytes[..len];
        let p = Packet::new_unchecked(buf);
        let start = any_le(len);
        let mut dest: Vec<u8, DNS_MAX_NAME_SIZE> = Vec::new();
        let r = copy_name(&mut dest, p.parse_name(&buf[start..]));
        let mut nlabels = 0usize;
        if r.is_ok() {
            // the stored name is uncompressed and well formed: it means the same in every later message
            let dl = dest.len();
            assert!(dl >= 1 && dl <= 2 * N + 1 && dest[dl - 1] == 0, "prop:c19_copied_name_is_terminated");
            let mut pos = 0usize;
            let mut fin = false;
            let mut i = 0;
            while i <= N {
                if !fin {
                    let x = dest[pos];
                    assert!(x & 0xc0 == 0, "prop:c19_copied_name_has_no_compression_pointers");
                    if x == 0 {
                        assert!(pos == dl - 1, "prop:c19_copied_name_has_single_terminator");
                        fin = true;
                    } else {
                        nlabels += 1;
                        pos += 1 + x as usize;
                        assert!(pos < dl, "prop:c19_copied_name_labels_inside_buffer");
                    }
                }
                i += 1;
            }
            assert!(fin, "prop:c19_copied_name_is_terminated");
        }
        kani::cover!(start < len && r.is_ok() && nlabels >= 2 && bytes[start] >= 0xc0, "compressed two-label name copied");
        kani::cover!(r.is_err() && len >= 2, "malformed name rejected");
        kani::cover!(r.is_ok() && dest.len() == 1, "root name copied");
    }

    // ------------------------------------------------------------------ dispatch / poll_at
    struct DPre {
        ns: usize,
        servers: [IpAddress; 2],
        mdns: bool,
        is_a: bool,
        qn: [u8; 2],
        txid: u16,
        port: u16,
        idx: usize,
        ta: Option<i64>,
        ra: i64,
        delay: u64,
    }

    fn any_v4() -> IpAddress {
        let o: [u8; 4] = kani::any();
        IpAddress::Ipv4(Ipv4Address::new(o[0], o[1], o[2], o[3]))
    }

    /// Overwrite the fresh query in slot 0 with an arbitrary state a history of dispatches can leave.
    fn any_pending(s: &mut Socket, now: i64, ns: usize, servers: [IpAddress; 2], is_a: bool) -> DPre {
        let qn: [u8; 2] = kani::any();
        let txid: u16 = kani::any();
        let port: u16 = kani::any();
        kani::assume(port > 1024);
        let mdns: bool = kani::any();
        let eff_n = if mdns { 2 } else { ns };
        let fresh: bool = kani::any();
        let idx = any_lt(2);
        // delays dispatch can produce: 1 s doubled up to the 10 s cap
        let dsel: u8 = kani::any();
        let (delay, dprev): (u64, i64) = match dsel {
            0 => (SEC as u64, 0),
            1 => (2 * SEC as u64, SEC),
            2 => (4 * SEC as u64, 2 * SEC),
            3 => (8 * SEC as u64, 4 * SEC),
            4 => (10 * SEC as u64, 8 * SEC),
            _ => (10 * SEC as u64, 10 * SEC),
        };
        let ra = any_us_in(0, now + 10 * SEC);
        let tav = any_us_in(0, now + 10 * SEC);
        let ta = if fresh { None } else { Some(tav) };
        if fresh {
            // as start_query leaves it
            kani::assume(idx == 0 && dsel == 0 && ra == 0);
        } else {
            // left pending by an earlier dispatch: server_idx < servers; the per-server timeout was armed 10 s
            // after some instant >= 0
            kani::assume(idx < eff_n && tav >= 10 * SEC);
            if dsel == 0 {
                // fail-over (or first dispatch) whose transmission the device refused: retransmit_at still zero,
                // timeout armed at that instant + 10 s
                kani::assume(ra == 0);
            } else {
                // last transmission at t_e = retransmit_at - previous delay: t_e <= now, the query had not timed
                // out at t_e (timeout_at >= t_e) and the timeout was armed at most 10 s before t_e... after
                let t_e = ra - dprev;
                kani::assume(t_e >= 0 && t_e <= now && tav >= t_e && tav <= t_e + 10 * SEC);
            }
        }
        let pq = pending_of(s, 0);
        pq.name = name_of(qn);
        pq.txid = txid;
        pq.port = port;
        pq.server_idx = idx;
        pq.timeout_at = ta.map(Instant::from_micros);
        pq.retransmit_at = Instant::from_micros(ra);
        pq.delay = Duration::from_micros(delay);
        pq.mdns = if mdns { MulticastDns::Enabled } else { MulticastDns::Disabled };
        DPre { ns, servers, mdns, is_a, qn, txid, port, idx, ta, ra, delay }
    }

    /// a == b decided on one symbolic octet position (IpAddress == IpAddress is a 16-byte memcmp loop for IPv6)
    fn same_addr(a: &IpAddress, b: &IpAddress) -> bool {
        let j = any_lt(16);
        match (a, b) {
            (IpAddress::Ipv4(x), IpAddress::Ipv4(y)) => j >= 4 || x.octets()[j] == y.octets()[j],
            (IpAddress::Ipv6(x), IpAddress::Ipv6(y)) => x.octets()[j] == y.octets()[j],
            _ => false,
        }
    }

    fn unspec(a: &IpAddress) -> bool {
        match a {
            IpAddress::Ipv4(x) => {
                let o = x.octets();
                o[0] == 0 && o[1] == 0 && o[2] == 0 && o[3] == 0
            }
            // only the (concrete) mDNS group reaches this arm
            IpAddress::Ipv6(x) => x.octets()[0] == 0 && x.octets()[15] == 0,
        }
    }

    const QLEN: usize = 21; // 12-byte header + <1>x<1>y<0> + TYPE + CLASS

    struct Emit {
        seen: bool,
        dst: IpAddress,
        src: IpAddress,
        sport: u16,
        dport: u16,
        len: usize,
        iplen: usize,
        hop: u8,
        /// the whole 21-byte query, copied with concrete indices
        b: [u8; QLEN],
    }

    // @harness props=C19,C13 cfg=KN tier=q to=900 mem=6 unwind=7 opts=nomem covers=6 funcs=dns::Socket::dispatch;wire::dns::Repr::emit;wire::dns::Question::emit;InterfaceInner::get_source_address bounds=one_pending_query_(name_<1>x<1>y,_A/AAAA,_unicast_or_mDNS)_in_any_state_a_dispatch_history_can_leave:_server_idx<servers,_delay_1..10_s,_timeout_at/retransmit_at_anywhere_up_to_now+10_s;_0..=2_IPv4_servers_with_symbolic_octets;_now<2^50_us_(all_instants_in_microseconds);_emit_returns_symbolic_Ok/Err
    #[kani::proof]
    pub(crate) fn dns_dispatch_step() {
        dns_env!(dev, iface, cx, now);
        let mut slots: [Option<DnsQuery>; 1 + PAD] = [None, None, None];
        let servers = [any_v4(), any_v4()];
        let ns = any_le(2);
        let mut s = Socket::new(&servers[..ns], &mut slots[..1]);
        let is_a: bool = kani::any();
        let _h = s.start_query(cx, QNAME, if is_a { Type::A } else { Type::Aaaa }).unwrap();
        let g = any_pending(&mut s, now, ns, servers, is_a);
        crate::vdump!("PRE now={} servers={:?} {:?}", now, &servers[..ns], s.queries[0]);

        let zero = IpAddress::Ipv4(Ipv4Address::new(0, 0, 0, 0));
        let mut e = Emit { seen: false, dst: zero, src: zero, sport: 0, dport: 0, len: 0, iplen: 0, hop: 0, b: [0; QLEN] };
        let emit_ok: bool = kani::any();
        let res = s.dispatch(cx, |_cx, (ip, udp, payload)| {
            e.seen = true;
            e.dst = ip.dst_addr();
            e.src = ip.src_addr();
            e.sport = udp.src_port;
            e.dport = udp.dst_port;
            e.len = payload.len();
            e.iplen = ip.payload_len();
            e.hop = ip.hop_limit();
            if payload.len() == QLEN {
                e.b = [
                    payload[0], payload[1], payload[2], payload[3], payload[4], payload[5], payload[6], payload[7], payload[8], payload[9], payload[10],
                    payload[11], payload[12], payload[13], payload[14], payload[15], payload[16], payload[17], payload[18], payload[19], payload[20],
                ];
            }
            crate::vdump!("EMIT payload={:02x?}", payload);
            if emit_ok { Ok(()) } else { Err(()) }
        });
        crate::vdump!("EMIT seen={} ok={} dst={:?}:{} sport={} len={} res={:?}", e.seen, emit_ok, e.dst, e.dport, e.sport, e.len, res);
        crate::vdump!("POST {:?}", s.queries[0]);

        // reference
        let eff = if g.mdns { [MDNS_IPV6_ADDR, MDNS_IPV4_ADDR] } else { servers };
        let eff_n = if g.mdns { 2 } else { ns };
        let ta_eff = match g.ta { Some(t) => t, None => now + 10 * SEC };
        let timed_out = ta_eff <= now; // "after 10 s": at the instant poll_at reports, not one tick later
        let idx1 = g.idx + timed_out as usize;
        let ra_eff = if timed_out { 0 } else { g.ra };
        let delay_eff = if timed_out { SEC as u64 } else { g.delay };

        assert!(res.is_ok() == (emit_ok || !e.seen), "prop:c09_emit_error_passed_through");
        let q = s.queries[0].as_ref().unwrap();
        let mut failed = false;
        match &q.state {
            State::Completed(_) => assert!(false, "prop:c19_dispatch_never_completes_a_query"),
            State::Failure => {
                failed = true;
                assert!(!e.seen, "prop:c19_failed_query_transmits_nothing");
                assert!(idx1 >= eff_n || unspec(&eff[idx1]), "prop:c19_failure_only_when_servers_exhausted_or_unusable");
            }
            State::Pending(pq) => {
                assert!(idx1 < eff_n, "prop:c19_fails_when_servers_exhausted");
                assert!(pq.server_idx == idx1, "prop:c19_next_server_exactly_after_timeout");
                let ta1 = if timed_out { now + 10 * SEC } else { ta_eff };
                assert!(pq.timeout_at == Some(Instant::from_micros(ta1)), "prop:c19_timeout_armed_10s_per_server");
                // identity never changes
                assert!(
                    pq.txid == g.txid && pq.port == g.port && pq.type_ == (if is_a { Type::A } else { Type::Aaaa })
                        && pq.name.len() == 5 && pq.name[1] == g.qn[0] && pq.name[3] == g.qn[1],
                    "prop:c19_dispatch_keeps_query_identity"
                );
                let ra1 = pq.retransmit_at;
                let d1 = pq.delay;
                let ms = |t: i64| Instant::from_micros(t);
                if e.seen {
                    assert!(now >= g.ra || timed_out, "prop:c19_transmits_only_at_or_after_retransmit_at");
                    assert!(same_addr(&e.dst, &eff[idx1]), "prop:c19_query_sent_to_current_server");
                    assert!(e.dport == (if g.mdns { 5353 } else { 53 }), "prop:c19_query_sent_to_port_53_or_mdns_port");
                    assert!(e.sport == g.port, "prop:c19_query_sent_from_query_port");
                    assert!(e.len == QLEN && e.iplen == 8 + QLEN, "prop:c19_query_length");
                    let ty = type_val(is_a);
                    let want: [u8; QLEN] = [
                        (g.txid >> 8) as u8, g.txid as u8, 0x01, 0x00, 0, 1, 0, 0, 0, 0, 0, 0,
                        1, g.qn[0], 1, g.qn[1], 0, (ty >> 8) as u8, ty as u8, 0, 1,
                    ];
                    let k = any_lt(QLEN);
                    assert!(e.b[k] == want[k], "prop:c19_query_carries_txid_name_type");
                    assert!(matches!(e.src, IpAddress::Ipv4(_)) == matches!(e.dst, IpAddress::Ipv4(_)), "prop:c10_source_address_family");
                    if emit_ok {
                        // back-off: next retransmission after the current delay, delay doubled up to the cap
                        assert!(ra1 == ms(now + delay_eff as i64), "prop:c19_retransmission_scheduled_after_current_delay");
                        assert!(d1 == Duration::from_micros(core::cmp::min(2 * delay_eff, 10 * SEC as u64)), "prop:c19_delay_doubles_up_to_cap");
                        // ranking argument: at a deadline either a server is consumed, or the per-server timeout instant
                        // stays put while the next deadline moves strictly (>= 1 s) forward and is <= 10 s away
                        let dec = (idx1 > g.idx) || (idx1 == g.idx && ta1 == ta_eff && ra1 >= ms(now + SEC));
                        assert!(dec && ra1 <= ms(now + 10 * SEC), "prop:c19_progress_measure_decreases");
                    } else {
                        assert!(ra1 == ms(ra_eff) && d1 == Duration::from_micros(delay_eff) && ra1 <= ms(now), "prop:c19_emit_error_leaves_query_due");
                    }
                } else {
                    assert!(now < ra_eff, "prop:c19_due_query_is_transmitted");
                    assert!(ra1 == ms(ra_eff) && d1 == Duration::from_micros(delay_eff), "prop:c19_waiting_query_unchanged");
                }
            }
        }
        if timed_out {
            // fail-over: the pair (servers left, time to timeout) drops in its first component
            assert!(failed || idx1 == g.idx + 1, "prop:c19_progress_measure_decreases");
        }
        kani::cover!(e.seen && emit_ok && g.ta.is_none(), "first transmission of a fresh query");
        kani::cover!(e.seen && emit_ok && !timed_out && g.ta.is_some() && g.delay == 8 * SEC as u64, "retransmission, delay capped at 10 s");
        kani::cover!(e.seen && timed_out && idx1 == 1 && !g.mdns, "timeout: query sent to the next server");
        kani::cover!(failed && timed_out && !g.mdns && ns == 2, "timeout on the last server: query failed");
        kani::cover!(e.seen && g.mdns && matches!(e.dst, IpAddress::Ipv6(_)), "mDNS query to ff02::fb");
        kani::cover!(e.seen && !emit_ok, "device refused the packet");
    }

    // @harness props=C19,C13 cfg=KN tier=q to=900 mem=6 unwind=7 opts=nomem covers=4 funcs=dns::Socket::poll_at;dns::Socket::dispatch bounds=pre-states_of_dns_dispatch_step;_probe_instant_anywhere_relative_to_poll_at
    #[kani::proof]
    pub(crate) fn dns_poll_at_step() {
        dns_env!(dev, iface, cx, now);
        let mut slots: [Option<DnsQuery>; 1 + PAD] = [None, None, None];
        let servers = [any_v4(), any_v4()];
        let ns = any_le(2);
        let mut s = Socket::new(&servers[..ns], &mut slots[..1]);
        let is_a: bool = kani::any();
        let _h = s.start_query(cx, QNAME, if is_a { Type::A } else { Type::Aaaa }).unwrap();
        let g = any_pending(&mut s, now, ns, servers, is_a);
        // a query left pending by an earlier dispatch has a usable current server (dispatch fails it otherwise);
        // replacing the server list through update_servers in between is an application call, after which the
        // application polls anyway
        kani::assume(g.ta.is_none() || g.mdns || !unspec(&servers[g.idx]));
        crate::vdump!("PRE now={} servers={:?} {:?}", now, &servers[..ns], s.queries[0]);
        let nowi = Instant::from_micros(now);
        let d = s.poll_at(cx);
        assert!(d != PollAt::Ingress, "prop:c19_pending_query_has_finite_deadline");
        let early = match d {
            PollAt::Ingress => true,
            PollAt::Time(t) => nowi < t,
            PollAt::Now => false,
        };
        let mut called = false;
        let emit_ok: bool = kani::any();
        let _ = s.dispatch(cx, |_cx, (_ip, _udp, _payload)| {
            called = true;
            if emit_ok { Ok(()) } else { Err(()) }
        });
        crate::vdump!("poll_at={:?} early={} emit called={} POST {:?}", d, early, called, s.queries[0]);
        let q = s.queries[0].as_ref().unwrap();
        if early {
            // polling before the deadline transmits nothing and changes no protocol state
            assert!(!called, "prop:c13_nothing_sent_before_poll_at");
            match &q.state {
                State::Pending(pq) => {
                    assert!(
                        pq.server_idx == g.idx && pq.retransmit_at == Instant::from_micros(g.ra) && pq.delay == Duration::from_micros(g.delay)
                            && pq.timeout_at == g.ta.map(Instant::from_micros),
                        "prop:c13_no_state_change_before_poll_at"
                    );
                }
                _ => assert!(false, "prop:c13_no_state_change_before_poll_at"),
            }
        }
        let after = s.poll_at(cx);
        if !called {
            // non-spinning: a poll that sent nothing leaves a deadline strictly in the future, or none
            match after {
                PollAt::Now => assert!(false, "prop:c13_idle_poll_leaves_future_deadline"),
                PollAt::Time(t) => assert!(t > nowi, "prop:c13_idle_poll_leaves_future_deadline"),
                PollAt::Ingress => {}
            }
        }
        if called && emit_ok {
            // after a transmission the next deadline is finite, later than now and at most 10 s away
            match after {
                PollAt::Time(t) => assert!(t > nowi && t <= nowi + MAX_RETRANSMIT_DELAY, "prop:c19_retransmission_deadline_within_cap"),
                _ => assert!(false, "prop:c19_retransmission_deadline_within_cap"),
            }
        }
        kani::cover!(early && matches!(q.state, State::Pending(_)), "polled before the retransmission deadline");
        kani::cover!(!early && called && g.ta.is_some(), "deadline reached: query retransmitted");
        kani::cover!(!called && after == PollAt::Ingress, "query failed: no deadline left");
        kani::cover!(!called && matches!(after, PollAt::Time(_)), "idle poll with future deadline");
    }

    // ------------------------------------------------------------------ application interface
    /// `core::str::from_utf8` runs an alignment-dependent fast path that Kani can only treat as symbolic;
    /// the harnesses below only ever build strings from the ASCII bytes `a..z` and `.`
    #[allow(unsafe_code)]
    fn ascii_str(b: &[u8]) -> &str {
        unsafe { core::str::from_utf8_unchecked(b) }
    }

    fn is_lc(c: u8) -> bool {
        c >= b'a' && c <= b'z'
    }

    struct ApiOut {
        started: bool,
        invalid_seen: bool,
        nofree_seen: bool,
        which: u8,
        st: u8,
        two: bool,
    }

    // @harness props=C19 cfg=KN tier=q to=900 mem=6 unwind=10 opts=nomem covers=3 funcs=dns::Socket::start_query;dns::Socket::start_query_raw;dns::Socket::find_free_query bounds=socket_with_2_query_slots,_slot_0_Pending/Completed(1..2_addresses)/Failed,_slot_1_free_or_taken;_new_name_of_0..=4_symbolic_bytes_from_[a-z.]
    #[kani::proof]
    pub(crate) fn dns_api_start() {
        let o = api_step::<4>(0);
        kani::cover!(o.started, "second query started");
        kani::cover!(o.invalid_seen, "name with an empty label rejected");
        kani::cover!(o.nofree_seen, "full socket refused a query");
    }

    // measured alone (together with the result/cancel cases): 423 s, 5.6 GB
    // @harness props=C19 cfg=KN tier=t to=1800 mem=8 unwind=12 opts=nomem covers=3 funcs=dns::Socket::start_query;dns::Socket::start_query_raw;dns::Socket::find_free_query bounds=as_dns_api_start_with_a_new_name_of_0..=6_symbolic_bytes_from_[a-z.]_(includes_"local")
    #[kani::proof]
    pub(crate) fn dns_api_start6() {
        let o = api_step::<6>(0);
        kani::cover!(o.started, "second query started");
        kani::cover!(o.invalid_seen, "name with an empty label rejected");
        kani::cover!(o.nofree_seen, "full socket refused a query");
    }

    // @harness props=C19 cfg=KN tier=q to=900 mem=6 unwind=10 opts=nomem covers=3 funcs=dns::Socket::get_query_result;dns::Socket::cancel_query;dns::Socket::start_query;dns::Socket::find_free_query bounds=socket_with_2_query_slots,_slot_0_Pending/Completed(1..2_addresses)/Failed;_get_query_result_or_cancel_query,_then_the_slot_is_reused
    #[kani::proof]
    pub(crate) fn dns_api_result() {
        let which: u8 = kani::any();
        kani::assume(which == 1 || which == 2);
        let o = api_step::<4>(which);
        kani::cover!(o.which == 1 && o.st == 1 && o.two, "two addresses handed out");
        kani::cover!(o.which == 1 && o.st == 0, "result not ready");
        kani::cover!(o.which == 2 && o.st == 0, "pending query cancelled");
    }

    fn api_step<const L: usize>(which: u8) -> ApiOut {
        dns_env!(dev, iface, cx, now);
        let mut slots: [Option<DnsQuery>; 2 + PAD] = [None, None, None, None];
        let servers = [IpAddress::Ipv4(S4)];
        let mut s = Socket::new(&servers[..], &mut slots[..2]);
        let h0 = s.start_query(cx, "ab.c", Type::A).unwrap();
        assert!(h0.0 == 0 && s.queries[1].is_none(), "prop:c19_first_query_takes_first_free_slot");
        let (txid0, port0) = {
            let pq = pending_of(&mut s, 0);
            (pq.txid, pq.port)
        };
        // slot 0 in any of its three states
        let st: u8 = kani::any();
        kani::assume(st <= 2);
        let a0 = any_v4();
        let a1 = any_v4();
        let two: bool = kani::any();
        if st == 1 {
            let mut addresses = Vec::new();
            addresses.push(a0).unwrap();
            if two {
                addresses.push(a1).unwrap();
            }
            s.queries[0].as_mut().unwrap().state = State::Completed(CompletedQuery { addresses });
        } else if st == 2 {
            s.queries[0].as_mut().unwrap().state = State::Failure;
        }
        let mut started = false;
        let mut invalid_seen = false;
        let mut nofree_seen = false;
        if which == 0 {
            // ---- start_query with an arbitrary short name, second slot free or taken
            let full: bool = kani::any();
            if full {
                let h1 = s.start_query(cx, "x.y", Type::Aaaa).unwrap();
                assert!(h1.0 == 1, "prop:c19_query_takes_first_free_slot");
            }
            let nb: [u8; L] = kani::any();
            let nl = any_le(L);
            let mut i = 0;
            while i < L {
                kani::assume(nb[i] == b'.' || is_lc(nb[i]));
                i += 1;
            }
            let name = ascii_str(&nb[..nl]);
            let r = s.start_query(cx, name, Type::Aaaa);
            // reference: one trailing dot is dropped, then every label must be non-empty
            let el = if nl > 0 && nb[nl - 1] == b'.' { nl - 1 } else { nl };
            let mut invalid = nl == 0 || el == 0 || nb[0] == b'.' || nb[el - 1] == b'.';
            let mut i = 0;
            while i + 1 < L {
                if i + 1 < el && nb[i] == b'.' && nb[i + 1] == b'.' {
                    invalid = true;
                }
                i += 1;
            }
            // RFC 6762: the only name of <= 6 bytes whose last label is "local" is "local" itself
            let is_local = el == 5 && nb[0] == b'l' && nb[1] == b'o' && nb[2] == b'c' && nb[3] == b'a' && nb[4] == b'l';
            crate::vdump!("start_query({:?}) full={} -> {:?}", name, full, r.as_ref().map(|h| h.0));
            match r {
                Err(StartQueryError::InvalidName) => {
                    invalid_seen = true;
                    assert!(invalid, "prop:c19_only_empty_labels_are_invalid");
                }
                Err(StartQueryError::NoFreeSlot) => {
                    nofree_seen = true;
                    assert!(!invalid && full, "prop:c19_no_free_slot_only_when_full");
                }
                Err(StartQueryError::NameTooLong) => assert!(false, "prop:c19_short_name_is_not_too_long"),
                Ok(h) => {
                    started = true;
                    assert!(!invalid && !full && h.0 == 1, "prop:c19_valid_name_starts_query_in_free_slot");
                    let pq = pending_of(&mut s, 1);
                    // wire encoding: a length octet in front of every label, zero at the end
                    assert!(pq.name.len() == el + 2 && pq.name[el + 1] == 0, "prop:c19_start_query_encodes_labels");
                    let k = any_lt(L + 1);
                    if k <= el {
                        // position k of the encoding is nb[k-1], or the length of the label starting at nb[k]
                        if k >= 1 && nb[k - 1] != b'.' {
                            assert!(pq.name[k] == nb[k - 1], "prop:c19_start_query_encodes_labels");
                        } else if k < el {
                            let mut ll = 0usize;
                            let mut open = true;
                            let mut j = 0;
                            while j < L {
                                if j >= k && j < el && open {
                                    if nb[j] == b'.' {
                                        open = false;
                                    } else {
                                        ll += 1;
                                    }
                                }
                                j += 1;
                            }
                            assert!(pq.name[k] as usize == ll, "prop:c19_start_query_encodes_labels");
                        }
                    }
                    assert!(
                        pq.type_ == Type::Aaaa && pq.server_idx == 0 && pq.timeout_at.is_none() && pq.delay == RETRANSMIT_DELAY
                            && pq.retransmit_at <= Instant::from_micros(now) && matches!(pq.mdns, MulticastDns::Enabled) == is_local,
                        "prop:c19_new_query_is_due_at_first_server"
                    );
                }
            }
            if full && !started {
                assert!(matches!(s.queries[1], Some(DnsQuery { state: State::Pending(_), .. })), "prop:c19_failed_start_leaves_other_queries_alone");
            }
            // slot 0 is never disturbed
            let q0 = s.queries[0].as_ref().unwrap();
            match &q0.state {
                State::Pending(pq) => assert!(
                    st == 0 && pq.txid == txid0 && pq.port == port0 && pq.name.as_slice() == &[2u8, b'a', b'b', 1, b'c', 0][..],
                    "prop:c19_failed_start_leaves_other_queries_alone"
                ),
                State::Completed(c) => assert!(
                    st == 1 && c.addresses.len() == 1 + two as usize && c.addresses[0] == a0,
                    "prop:c19_failed_start_leaves_other_queries_alone"
                ),
                State::Failure => assert!(st == 2, "prop:c19_failed_start_leaves_other_queries_alone"),
            }
        } else if which == 1 {
            // ---- get_query_result
            match s.get_query_result(h0) {
                Err(GetQueryResultError::Pending) => {
                    assert!(st == 0, "prop:c19_pending_reported_only_while_pending");
                    assert!(s.queries[0].is_some(), "prop:c19_pending_query_keeps_its_slot");
                    let pq = pending_of(&mut s, 0);
                    assert!(pq.txid == txid0 && pq.port == port0, "prop:c19_pending_query_keeps_its_slot");
                }
                Err(GetQueryResultError::Failed) => {
                    assert!(st == 2, "prop:c19_failed_reported_only_after_failure");
                    assert!(s.queries[0].is_none(), "prop:c19_finished_query_frees_its_slot");
                }
                Ok(addrs) => {
                    assert!(st == 1, "prop:c19_addresses_reported_only_after_completion");
                    assert!(addrs.len() == 1 + two as usize && addrs[0] == a0 && (!two || addrs[1] == a1), "prop:c19_result_is_the_stored_address_list");
                    assert!(s.queries[0].is_none(), "prop:c19_finished_query_frees_its_slot");
                }
            }
            if st != 0 {
                let h = s.start_query(cx, "de.f", Type::A).unwrap();
                assert!(h.0 == 0, "prop:c19_freed_slot_is_reused");
            }
        } else {
            // ---- cancel_query
            s.cancel_query(h0);
            assert!(s.queries[0].is_none(), "prop:c19_cancel_frees_the_slot");
            let h = s.start_query(cx, "de.f", Type::A).unwrap();
            assert!(h.0 == 0, "prop:c19_freed_slot_is_reused");
        }
        ApiOut { started, invalid_seen, nofree_seen, which, st, two }
    }

    // @harness props=C19 cfg=KN tier=q to=600 mem=6 unwind=70 opts=nomem covers=2 funcs=dns::Socket::start_query;dns::Socket::start_query_raw bounds=concrete_names_around_the_limits:_label_of_63_/_64_bytes,_encoded_name_of_64_/_65_/_67_bytes_with_DNS_MAX_NAME_SIZE=64,_.local_suffix
    #[kani::proof]
    pub(crate) fn dns_api_long_names() {
        dns_env!(dev, iface, cx, now);
        let mut slots: [Option<DnsQuery>; 1 + PAD] = [None, None, None];
        let servers = [IpAddress::Ipv4(S4)];
        let mut s = Socket::new(&servers[..], &mut slots[..1]);
        // string literals: arrays of more than 64 symbolic-execution elements are not constant-propagated
        let s62 = "aaaaaaaaaaaaaaaaaaaaaaaaaaaaaaaaaaaaaaaaaaaaaaaaaaaaaaaaaaaaaa";
        let s63 = "aaaaaaaaaaaaaaaaaaaaaaaaaaaaaaaaaaaaaaaaaaaaaaaaaaaaaaaaaaaaaaa";
        let s64 = "aaaaaaaaaaaaaaaaaaaaaaaaaaaaaaaaaaaaaaaaaaaaaaaaaaaaaaaaaaaaaaaa";
        let s63_1 = "aaaaaaaaaaaaaaaaaaaaaaaaaaaaaaaaaaaaaaaaaaaaaaaaaaaaaaaaaaaaaaa.a";
        assert!(s62.len() == DNS_MAX_NAME_SIZE - 2 && s63.len() == 63 && s64.len() == 64 && s63_1.len() == 65, "inv:harness_literals");
        assert!(DNS_MAX_NAME_SIZE == 64, "inv:harness_written_for_DNS_MAX_NAME_SIZE_64");
        // a label of more than 63 bytes cannot be encoded
        assert!(matches!(s.start_query(cx, s64, Type::A), Err(StartQueryError::InvalidName)), "prop:c19_label_over_63_bytes_is_invalid");
        // encodings longer than DNS_MAX_NAME_SIZE are refused, and no slot is taken
        assert!(matches!(s.start_query(cx, s63, Type::A), Err(StartQueryError::NameTooLong)), "prop:c19_name_over_max_size_is_too_long");
        assert!(matches!(s.start_query(cx, s63_1, Type::A), Err(StartQueryError::NameTooLong)), "prop:c19_name_over_max_size_is_too_long");
        assert!(s.queries[0].is_none(), "prop:c19_refused_name_takes_no_slot");
        let raw = s64.as_bytes();
        assert!(
            matches!(s.start_query_raw(cx, &s63_1.as_bytes()[..DNS_MAX_NAME_SIZE + 1], Type::A, MulticastDns::Disabled), Err(StartQueryError::NameTooLong)),
            "prop:c19_name_over_max_size_is_too_long"
        );
        assert!(s.queries[0].is_none(), "prop:c19_refused_name_takes_no_slot");
        // exactly DNS_MAX_NAME_SIZE fits
        let h = s.start_query(cx, s62, Type::A);
        assert!(matches!(h, Ok(QueryHandle(0))), "prop:c19_name_of_max_size_accepted");
        {
            let pq = pending_of(&mut s, 0);
            assert!(pq.name.len() == DNS_MAX_NAME_SIZE && pq.name[0] == 62 && pq.name[DNS_MAX_NAME_SIZE - 1] == 0, "prop:c19_start_query_encodes_labels");
        }
        kani::cover!(s.queries[0].is_some(), "maximal name accepted");
        s.cancel_query(QueryHandle(0));
        // RFC 6762: names under .local are multicast queries
        let _ = s.start_query(cx, "ab.local", Type::A).unwrap();
        {
            let pq = pending_of(&mut s, 0);
            assert!(matches!(pq.mdns, MulticastDns::Enabled), "prop:c19_local_names_use_mdns");
            kani::cover!(pq.name.len() == 10, ".local query started");
        }
    }



}
