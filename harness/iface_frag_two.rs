// C12: two sockets with oversized datagrams in one egress pass (the fragmentation buffer is taken by the first).
// Spliced into src/iface/interface/mod.rs under configuration KU4 (UDP sockets only): with the socket enum of
// configuration KI4 (TCP, UDP, ICMP, raw) two sockets in one SocketSet ran out of memory at 16 GB, because the
// symbolic execution explores every socket type's dispatch for every set entry.
#[allow(dead_code, unused_imports, unused_variables, unused_mut, unused_assignments)]
mod v_iface_frag_two {
    use super::*;
    use crate::iface::SocketStorage;
    use crate::socket::udp as sudp;
    use crate::verif_common::*;
    use crate::verif_dev::{CapDev, CapTx, NullDev, TxState};

    const LOCAL: Ipv4Address = Ipv4Address::new(192, 168, 1, 1);
    const REMOTE: Ipv4Address = Ipv4Address::new(192, 168, 1, 2);
    const IPH: usize = 20;
    const D2L: usize = 17;

    /// RFC 791 header fields read from raw bytes (needs >= 20 bytes)
    #[derive(Clone, Copy)]
    struct H {
        vihl: u8,
        total: usize,
        ident: u16,
        rsv: bool,
        df: bool,
        mf: bool,
        off: usize,
        ttl: u8,
        proto: u8,
        src: [u8; 4],
        dst: [u8; 4],
        cksum_ok: bool,
    }

    fn hdr(b: &[u8]) -> H {
        let w = |i: usize| ((b[i] as u32) << 8) | b[i + 1] as u32;
        let fl = w(6);
        let mut sum = w(0) + w(2) + w(4) + w(6) + w(8) + w(10) + w(12) + w(14) + w(16) + w(18);
        sum = (sum & 0xffff) + (sum >> 16);
        sum = (sum & 0xffff) + (sum >> 16);
        H {
            vihl: b[0],
            total: w(2) as usize,
            ident: w(4) as u16,
            rsv: fl & 0x8000 != 0,
            df: fl & 0x4000 != 0,
            mf: fl & 0x2000 != 0,
            off: ((fl & 0x1fff) as usize) * 8,
            ttl: b[8],
            proto: b[9],
            src: [b[12], b[13], b[14], b[15]],
            dst: [b[16], b[17], b[18], b[19]],
            cksum_ok: sum == 0xffff,
        }
    }

    fn dump_frame(tag: &str, frames: usize, which: usize, b: &[u8], len: usize) {
        if frames > which {
            let h = hdr(&b[..IPH]);
            crate::vdump!("{}: len={} ident={} mf={} off={} payload={:?}", tag, len, h.ident, h.mf, h.off, &b[IPH..len]);
        } else {
            crate::vdump!("{}: -", tag);
        }
    }

    // (c) two sockets, each holding an oversized datagram, in one egress pass with an idle fragmenter: the first socket's
    // datagram takes the fragmentation buffer; the second socket's datagram must stay queued until the buffer is free
    // (a datagram that leaves its socket's queue is on the wire).  One pass; the later passes are those of
    // ipv4_frag_busy_socket.
    // @harness props=C12 cfg=KU4 tier=q to=1200 mem=12 unwind=12 opts=nomem covers=1 funcs=Interface::poll_egress;Interface::socket_egress;udp::Socket::dispatch;InterfaceInner::dispatch_ip bounds=MTU_44;_two_UDP_sockets_(ports_1001,_1002)_each_with_one_17-byte_datagram_of_any_octets_(2_fragments);_fragmenter_idle;_one_poll_egress_pass;_device_always_accepts
    #[kani::proof]
    pub(crate) fn ipv4_frag_busy_two_sockets() {
        let mut da = CapDev::<48>::new(Medium::Ip, 44, ChecksumCapabilities::ignored());
        let mut iface = Interface::new(Config::new(HardwareAddress::Ip), &mut da, Instant::from_millis(0));
        iface.update_ip_addrs(|a| {
            a.push(IpCidr::new(IpAddress::Ipv4(LOCAL), 24)).unwrap();
        });
        let da_: [u8; D2L] = kani::any();
        let db_: [u8; D2L] = kani::any();
        let mut rxm1 = [sudp::PacketMetadata::EMPTY; 1];
        let mut rxp1 = [0u8; 8];
        let mut txm1 = [sudp::PacketMetadata::EMPTY; 1];
        let mut txp1 = [0u8; 24];
        let mut rxm2 = [sudp::PacketMetadata::EMPTY; 1];
        let mut rxp2 = [0u8; 8];
        let mut txm2 = [sudp::PacketMetadata::EMPTY; 1];
        let mut txp2 = [0u8; 24];
        let mut s1 = sudp::Socket::new(sudp::PacketBuffer::new(&mut rxm1[..], &mut rxp1[..]), sudp::PacketBuffer::new(&mut txm1[..], &mut txp1[..]));
        let mut s2 = sudp::Socket::new(sudp::PacketBuffer::new(&mut rxm2[..], &mut rxp2[..]), sudp::PacketBuffer::new(&mut txm2[..], &mut txp2[..]));
        s1.bind(1001).unwrap();
        s2.bind(1002).unwrap();
        s1.send_slice(&da_[..], IpEndpoint::new(IpAddress::Ipv4(REMOTE), 2001)).unwrap();
        s2.send_slice(&db_[..], IpEndpoint::new(IpAddress::Ipv4(REMOTE), 2001)).unwrap();
        let mut storage = [SocketStorage::EMPTY, SocketStorage::EMPTY];
        let mut sockets = SocketSet::new(&mut storage[..]);
        let h1 = sockets.add(s1);
        let h2 = sockets.add(s2);
        let now = Instant::from_millis(0);

        iface.poll_egress(now, &mut da, &mut sockets);
        let (qa1, qb1) = (sockets.get::<sudp::Socket>(h1).send_queue(), sockets.get::<sudp::Socket>(h2).send_queue());
        dump_frame("poll_egress #1 frame0", da.tx.frames, 0, &da.tx.buf0, da.tx.len0);
        dump_frame("poll_egress #1 frame1", da.tx.frames, 1, &da.tx.buf1, da.tx.len1);
        crate::vdump!("send queues (socket 1, socket 2) after the pass: ({},{})", qa1, qb1);
        // first fragment of the datagram of the socket bound to `port` is among the captured frames
        let k = any_lt(16);
        let sent = |port: u16, d: &[u8; D2L]| -> bool {
            let one = |b: &[u8; 48], len: usize, present: bool| -> bool {
                if !present {
                    return false;
                }
                let h = hdr(&b[..IPH]);
                h.vihl == 0x45 && h.total == len && !h.df && h.proto == 17 && h.src == LOCAL.octets() && h.dst == REMOTE.octets()
                    && len == 44 && h.mf && h.off == 0 && b[IPH] == (port >> 8) as u8 && b[IPH + 1] == port as u8 && b[IPH + 5] == (8 + D2L) as u8 && b[IPH + 8 + k] == d[k]
            };
            one(&da.tx.buf0, da.tx.len0, da.tx.frames >= 1) || one(&da.tx.buf1, da.tx.len1, da.tx.frames >= 2)
        };
        // a datagram that left its socket has its first fragment on the wire (never dropped because the buffer was busy)
        assert!(qa1 == D2L || (qa1 == 0 && sent(1001, &da_)), "prop:c12_busy_datagram_leaving_its_socket_is_transmitted");
        assert!(qb1 == D2L || (qb1 == 0 && sent(1002, &db_)), "prop:c12_busy_datagram_leaving_its_socket_is_transmitted");
        // an idle fragmenter starts one of them
        assert!(qa1 == 0 || qb1 == 0, "prop:c12_idle_fragmenter_starts_a_queued_datagram");
        kani::cover!(qa1 == 0 && qb1 == D2L && da.tx.frames == 1, "the pass starts socket 1 and defers socket 2");
    }

}
