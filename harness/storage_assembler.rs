// C15 — the reassembly tracker is an exact, bounded set of byte ranges.
// Spliced into src/storage/assembler.rs (child module: private `contigs` reachable).
#[allow(dead_code, unused_imports)]
mod v_storage_assembler {
    use super::*;
    use crate::verif_common::*;

    const MAX: usize = ASSEMBLER_MAX_SEGMENT_COUNT;
    /// bound on every hole/data size of the symbolic pre-state and on offsets/sizes of the operation
    const B: usize = 16;

    /// INV_asm: used contigs form a prefix; used ones have data; all but the first have a hole; unused are (0,0).
    fn inv(a: &Assembler) -> bool {
        let mut ok = true;
        let mut used = true;
        let mut i = 0;
        while i < MAX {
            let c = a.contigs[i];
            if used {
                if c.data_size == 0 {
                    used = false;
                    ok = ok && c.hole_size == 0;
                } else if i > 0 {
                    ok = ok && c.hole_size > 0;
                }
            } else {
                ok = ok && c.hole_size == 0 && c.data_size == 0;
            }
            i += 1;
        }
        ok
    }

    /// arbitrary tracker state satisfying INV_asm (sizes bounded by B)
    fn any_asm() -> Assembler {
        let mut a = Assembler::new();
        let n = any_le(MAX);
        let mut i = 0;
        while i < MAX {
            if i < n {
                let h: usize = kani::any();
                let d: usize = kani::any();
                kani::assume(h <= B && d >= 1 && d <= B);
                kani::assume(i == 0 || h >= 1);
                a.contigs[i] = Contig { hole_size: h, data_size: d };
            }
            i += 1;
        }
        a
    }

    /// is byte offset x recorded as present?
    fn present(a: &Assembler, x: usize) -> bool {
        let mut off = 0usize;
        let mut p = false;
        let mut i = 0;
        while i < MAX {
            let c = a.contigs[i];
            let l = off + c.hole_size;
            let r = l + c.data_size;
            if x >= l && x < r {
                p = true;
            }
            off = r;
            i += 1;
        }
        p
    }

    fn same(a: &Assembler, b: &Assembler) -> bool {
        let mut ok = true;
        let mut i = 0;
        while i < MAX {
            ok = ok && a.contigs[i].hole_size == b.contigs[i].hole_size && a.contigs[i].data_size == b.contigs[i].data_size;
            i += 1;
        }
        ok
    }

    /// number of maximal runs the union of `a` with [o, o+s) needs (s > 0)
    fn runs_after(a: &Assembler, o: usize, s: usize) -> usize {
        let mut off = 0usize;
        let mut n = 1usize;
        let mut i = 0;
        while i < MAX {
            let c = a.contigs[i];
            if c.data_size != 0 {
                let l = off + c.hole_size;
                let r = l + c.data_size;
                let touches = l <= o + s && o <= r;
                if !touches {
                    n += 1;
                }
                off = r;
            }
            i += 1;
        }
        n
    }

    fn used(a: &Assembler) -> usize {
        let mut n = 0;
        let mut i = 0;
        while i < MAX {
            if a.contigs[i].data_size != 0 {
                n += 1;
            }
            i += 1;
        }
        n
    }

    // @harness props=C15 cfg=KS,KS3 tcfg=KS8 tier=q to=900 mem=6 unwind=KS:6,KS3:5,KS8:10 opts=nomem covers=2 funcs=Assembler::add bounds=direct_INV_pre-state;_hole/data_sizes<=16;_offset,size<=40;_MAX_from_config
    #[kani::proof]
    pub(crate) fn asm_add_union() {
        let mut a = any_asm();
        let pre = a.clone();
        let o = any_le(40);
        let s = any_le(40);
        let x = any_le(200);
        let r = a.add(o, s);
        match r {
            Ok(()) => {
                assert!(present(&a, x) == (present(&pre, x) || (x >= o && x < o + s)), "prop:c15_add_is_union");
                assert!(inv(&a), "prop:c15_canonical_form_after_add");
            }
            Err(_) => {
                assert!(same(&a, &pre), "prop:c15_refused_add_leaves_tracker_unchanged");
            }
        }
        kani::cover!(r.is_ok() && used(&a) < used(&pre), "add merged ranges");
        kani::cover!(r.is_err(), "add refused");
    }

    // (MAX = 8 removed from the thorough tier for this harness: no answer within 30 minutes; measured)
    // @harness props=C15 cfg=KS,KS3 tier=q to=900 mem=6 unwind=KS:6,KS3:5 opts=nomem covers=2 funcs=Assembler::add bounds=direct_INV_pre-state;_sizes<=16;_offset,size<=40
    #[kani::proof]
    pub(crate) fn asm_add_err_iff_overfull() {
        let mut a = any_asm();
        let o = any_le(40);
        let s = any_le(40);
        let need = if s == 0 { used(&a) } else { runs_after(&a, o, s) };
        let r = a.add(o, s);
        assert!(r.is_err() == (need > MAX), "prop:c15_refused_iff_more_than_MAX_ranges");
        if r.is_ok() {
            assert!(used(&a) == need, "prop:c15_touching_ranges_merged");
        }
        kani::cover!(r.is_err(), "refused");
        kani::cover!(r.is_ok() && need == MAX, "accepted at the limit");
    }

    // @harness props=C15 cfg=KS,KS3 tcfg=KS8 tier=q to=900 mem=6 unwind=KS:6,KS3:5,KS8:10 opts=nomem covers=2 funcs=Assembler::remove_front;Assembler::peek_front;Assembler::is_empty bounds=direct_INV_pre-state;_sizes<=16
    #[kani::proof]
    pub(crate) fn asm_remove_front() {
        let mut a = any_asm();
        let pre = a.clone();
        let x = any_le(200);
        let pk = a.peek_front();
        let want = if pre.contigs[0].hole_size == 0 { pre.contigs[0].data_size } else { 0 };
        assert!(pk == want, "prop:c15_peek_front_is_front_run");
        assert!(a.is_empty() == (used(&pre) == 0), "prop:c15_is_empty_agrees");
        let n = a.remove_front();
        assert!(n == want, "prop:c15_remove_front_returns_front_run");
        assert!(present(&a, x) == present(&pre, x + n), "prop:c15_remove_front_shifts_by_returned_amount");
        assert!(inv(&a), "prop:c15_canonical_form_after_remove_front");
        kani::cover!(n > 0 && used(&a) > 0, "removed, more remain");
        kani::cover!(n == 0 && used(&a) > 0, "front is a hole");
    }

    // (MAX = 8 removed from the thorough tier for this harness: no answer within 30 minutes; measured)
    // @harness props=C15 cfg=KS,KS3 tier=q to=900 mem=6 unwind=KS:6,KS3:5 opts=nomem covers=3 funcs=Assembler::add_then_remove_front bounds=direct_INV_pre-state;_sizes<=16;_offset,size<=40
    #[kani::proof]
    pub(crate) fn asm_atrf() {
        let mut a = any_asm();
        let pre = a.clone();
        let o = any_le(40);
        let s = any_le(40);
        let x = any_le(200);
        let r = a.add_then_remove_front(o, s);
        match r {
            Ok(n) => {
                // union, then the front run (if it starts at 0) removed and everything shifted by n
                let in_new = x + n >= o && x + n < o + s;
                assert!(present(&a, x) == (present(&pre, x + n) || in_new), "prop:c15_atrf_is_union_then_shift");
                let front0 = present(&pre, 0) || (o == 0 && s > 0);
                assert!((n > 0) == front0, "prop:c15_atrf_removes_front_iff_present");
                if n > 0 {
                    assert!(!present(&a, 0), "prop:c15_atrf_removed_whole_front_run");
                }
                assert!(inv(&a), "prop:c15_canonical_form_after_atrf");
            }
            Err(_) => {
                assert!(o != 0, "prop:c15_atrf_at_offset_zero_never_fails");
                assert!(same(&a, &pre), "prop:c15_refused_atrf_leaves_tracker_unchanged");
            }
        }
        kani::cover!(matches!(r, Ok(n) if n > 0) && used(&pre) == MAX, "front removed from a full tracker");
        kani::cover!(r.is_err(), "refused");
        kani::cover!(matches!(r, Ok(n) if n > 0) && o == 0 && pre.contigs[0].hole_size > s, "offset-0 fast path");
    }

    // @harness props=C15 cfg=KS,KS3 tcfg=KS8 tier=q to=900 mem=6 unwind=KS:6,KS3:5,KS8:10 opts=nomem covers=1 funcs=Assembler::iter_data;Assembler::clear;Assembler::new bounds=direct_INV_pre-state;_sizes<=16
    #[kani::proof]
    pub(crate) fn asm_views_agree() {
        let mut a = any_asm();
        let x = any_le(200);
        // iter_data yields exactly the maximal runs, in order
        let mut hit = false;
        let mut count = 0;
        let mut last_r = 0;
        let mut ordered = true;
        for (l, r) in a.iter_data() {
            if x >= l && x < r {
                hit = true;
            }
            if count > 0 && l <= last_r {
                ordered = false;
            }
            last_r = r;
            count += 1;
        }
        assert!(hit == present(&a, x), "prop:c15_iter_data_is_membership");
        assert!(count == used(&a), "prop:c15_iter_data_one_item_per_run");
        assert!(ordered, "prop:c15_iter_data_disjoint_increasing");
        kani::cover!(count == MAX, "full tracker iterated");
        a.clear();
        assert!(a.is_empty() && !present(&a, x) && same(&a, &Assembler::new()), "prop:c15_clear_empties");
    }

    // INV-states are exactly the API-reachable states: k ordered adds rebuild any INV state,
    // and INV holds after any sequence of 4 public operations from new().
    // @harness props=C15 cfg=KS,KS3 tcfg=KS8 tier=q to=900 mem=6 unwind=KS:6,KS3:5,KS8:10 opts=nomem covers=1 funcs=Assembler::add;Assembler::new bounds=sizes<=16
    #[kani::proof]
    pub(crate) fn asm_inv_states_reachable() {
        let a = any_asm();
        let mut b = Assembler::new();
        let mut off = 0;
        let mut i = 0;
        while i < MAX {
            let c = a.contigs[i];
            if c.data_size != 0 {
                let r = b.add(off + c.hole_size, c.data_size);
                assert!(r.is_ok(), "prop:c15_ordered_adds_never_refused");
                off += c.hole_size + c.data_size;
            }
            i += 1;
        }
        assert!(same(&a, &b), "prop:c15_inv_state_rebuilt_through_api");
        kani::cover!(used(&a) == MAX, "full state rebuilt");
    }

    // @harness props=C15 cfg=KS tier=q to=900 mem=8 unwind=6 opts=nomem covers=2 funcs=Assembler::add;Assembler::remove_front;Assembler::add_then_remove_front bounds=real_history_from_new():_add,add,atrf,remove_front_with_symbolic_offset,size<=12_(size_0_=_skip)
    #[kani::proof]
    pub(crate) fn asm_history() {
        // exact-set semantics along a real history, against a ghost bitmap
        let mut a = Assembler::new();
        let mut ghost: u64 = 0;
        fn mask(o: usize, s: usize) -> u64 {
            if s == 0 { 0 } else { ((1u64 << s) - 1) << o }
        }
        let (o1, s1, o2, s2, o3, s3) = (any_le(12), any_le(12), any_le(12), any_le(12), any_le(12), any_le(12));
        if a.add(o1, s1).is_ok() { ghost |= mask(o1, s1); }
        if a.add(o2, s2).is_ok() { ghost |= mask(o2, s2); }
        assert!(inv(&a), "prop:c15_history_canonical_form");
        let mut n1 = 0;
        if let Ok(n) = a.add_then_remove_front(o3, s3) {
            ghost = (ghost | mask(o3, s3)) >> n;
            n1 = n;
        }
        assert!(inv(&a), "prop:c15_history_canonical_form");
        let n = a.remove_front();
        ghost >>= n;
        assert!(inv(&a), "prop:c15_history_canonical_form");
        let x = any_lt(40);
        assert!(present(&a, x) == ((ghost >> x) & 1 == 1), "prop:c15_history_reports_exact_union");
        kani::cover!(ghost != 0 && used(&a) >= 2, "two ranges tracked at the end");
        kani::cover!(n1 > 0 && ghost != 0, "front removed mid-history");
    }

    // @harness props=C15 kind=mustfail cfg=KS tier=q to=600 mem=6 unwind=6 opts=nomem
    #[kani::proof]
    pub(crate) fn asm_must_fail() {
        let mut a = any_asm();
        let o = any_le(40);
        let s = any_le(40);
        let r = a.add(o, s);
        assert!(r.is_ok(), "prop:deliberately_false_add_never_refused");
    }
}

// Accessors used by harnesses living in other modules: only compiled under cfg(kani).
#[allow(dead_code)]
impl Assembler {
    /// is byte offset x recorded as present?
    pub(crate) fn verif_present(&self, x: usize) -> bool {
        let mut off = 0usize;
        let mut p = false;
        let mut i = 0;
        while i < ASSEMBLER_MAX_SEGMENT_COUNT {
            let c = self.contigs[i];
            let l = off + c.hole_size;
            let r = l + c.data_size;
            if x >= l && x < r {
                p = true;
            }
            off = r;
            i += 1;
        }
        p
    }
    /// offset one past the last recorded byte
    pub(crate) fn verif_total(&self) -> usize {
        let mut off = 0usize;
        let mut i = 0;
        while i < ASSEMBLER_MAX_SEGMENT_COUNT {
            off += self.contigs[i].hole_size + self.contigs[i].data_size;
            i += 1;
        }
        off
    }
    /// INV_asm (canonical form)
    pub(crate) fn verif_inv(&self) -> bool {
        let mut ok = true;
        let mut used = true;
        let mut i = 0;
        while i < ASSEMBLER_MAX_SEGMENT_COUNT {
            let c = self.contigs[i];
            if used {
                if c.data_size == 0 {
                    used = false;
                    ok = ok && c.hole_size == 0;
                } else if i > 0 {
                    ok = ok && c.hole_size > 0;
                }
            } else {
                ok = ok && c.hole_size == 0 && c.data_size == 0;
            }
            i += 1;
        }
        ok
    }
    /// first contig is a hole (front not present)
    pub(crate) fn verif_front_hole(&self) -> usize {
        self.contigs[0].hole_size
    }
}
