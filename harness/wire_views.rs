// C07 — Checked packet views never panic on arbitrary bytes.
// Included at the crate root (src/lib.rs), build configuration KW.
//
// Shape of every harness: N symbolic bytes, symbolic length 0..=N, `new_checked`; if Ok, every read
// accessor that applies to the view's own message type (type-dispatched accessors under the guard the
// crate documents / that the crate's own `Repr::parse` uses), then `Repr::parse`.  There are no
// explicit assertions: Kani's implicit checks (panic, slice index, arithmetic overflow, pointer
// safety, unwinding assertions) are the oracle; `kani::cover!` witnesses show non-vacuity.
// `view_*` = accessors + parser, `pp_*` = PrettyPrinter through the real core::fmt,
// `disp_*` = `Display` of a checked view that no PrettyPrint implementation reaches.
// A trailing `_t` marks the thorough-tier twin with a larger N.
#[cfg(all(
    feature = "medium-ethernet",
    feature = "medium-ieee802154",
    feature = "proto-sixlowpan",
    feature = "proto-dhcpv4",
    feature = "proto-dns",
    feature = "proto-ipv4",
    feature = "proto-ipv6"
))]
#[allow(dead_code, unused_imports, unused_variables, unused_mut, unused_must_use)]
mod v_wire_views {
    use crate::phy::ChecksumCapabilities;
    use crate::verif_common::*;
    use crate::wire::pretty_print::{PrettyPrint, PrettyPrinter};
    use crate::wire::*;
    use core::fmt::Write;

    fn any_ip4() -> IpAddress {
        IpAddress::Ipv4(Ipv4Address::from_octets(kani::any()))
    }
    fn any_ip6() -> Ipv6Address {
        Ipv6Address::from_octets(kani::any())
    }
    fn any_ll() -> Option<Ieee802154Address> {
        let k: u8 = kani::any();
        match k & 3 {
            0 => None,
            1 => Some(Ieee802154Address::Absent),
            2 => Some(Ieee802154Address::Short(kani::any())),
            _ => Some(Ieee802154Address::Extended(kani::any())),
        }
    }
    /// the real pretty-printer, real core::fmt, output discarded
    fn pp<T: PrettyPrint>(b: &[u8]) -> bool {
        write!(NoopSink, "{}", PrettyPrinter::<T>::new("", &b)).is_ok()
    }

    // ------------------------------------------------------------------ Ethernet / ARP

    fn ethernet_view<const N: usize>() {
        let bytes: [u8; N] = kani::any();
        let len = any_le(N);
        let b = &bytes[..len];
        if let Ok(p) = EthernetFrame::new_checked(b) {
            let _ = p.dst_addr();
            let _ = p.src_addr();
            let _ = p.ethertype();
            let pl = p.payload();
            let r = EthernetRepr::parse(&p);
            kani::cover!(r.is_ok() && pl.len() > 0, "ethernet: parsed, non-empty payload");
        }
    }
    // @harness props=C07,C03:t cfg=KW tier=q to=300 mem=4 unwind=4 covers=1 funcs=EthernetFrame::new_checked;EthernetFrame::payload;EthernetRepr::parse bounds=any_bytes_len_0..=20
    #[kani::proof]
    pub(crate) fn view_ethernet() {
        ethernet_view::<20>();
    }

    fn arp_view<const N: usize>() {
        let bytes: [u8; N] = kani::any();
        let len = any_le(N);
        let b = &bytes[..len];
        if let Ok(p) = ArpPacket::new_checked(b) {
            let _ = p.hardware_type();
            let _ = p.protocol_type();
            let _ = p.hardware_len();
            let _ = p.protocol_len();
            let _ = p.operation();
            let _ = p.source_hardware_addr();
            let _ = p.source_protocol_addr();
            let _ = p.target_hardware_addr();
            let _ = p.target_protocol_addr();
            let r = ArpRepr::parse(&p);
            kani::cover!(r.is_ok(), "arp: Ethernet/IPv4 parsed");
            kani::cover!(r.is_err() && p.hardware_len() > 6, "arp: other hardware length accepted by check_len");
        }
    }
    // @harness props=C07,C03:t cfg=KW tier=q to=300 mem=4 unwind=4 covers=2 funcs=ArpPacket::new_checked;ArpPacket::source_hardware_addr;ArpPacket::target_protocol_addr;ArpRepr::parse bounds=any_bytes_len_0..=40
    #[kani::proof]
    pub(crate) fn view_arp() {
        arp_view::<40>();
    }

    // ------------------------------------------------------------------ IPv4 / IPv6 / generic IP

    fn ipv4_view<const N: usize>() {
        let bytes: [u8; N] = kani::any();
        let len = any_le(N);
        let b = &bytes[..len];
        if let Ok(p) = Ipv4Packet::new_checked(b) {
            let _ = p.version();
            let _ = p.header_len();
            let _ = p.dscp();
            let _ = p.ecn();
            let _ = p.total_len();
            let _ = p.ident();
            let _ = p.dont_frag();
            let _ = p.more_frags();
            let _ = p.frag_offset();
            let _ = p.hop_limit();
            let _ = p.next_header();
            let _ = p.checksum();
            let _ = p.src_addr();
            let _ = p.dst_addr();
            let _ = p.verify_checksum();
            let _ = p.get_key();
            let pl = p.payload();
            let r = Ipv4Repr::parse(&p, &ChecksumCapabilities::ignored());
            let _ = Ipv4Repr::parse(&p, &ChecksumCapabilities::default());
            kani::cover!(r.is_ok() && p.header_len() > 20 && pl.len() > 0, "ipv4: parsed, with options and payload");
        }
    }
    // @harness props=C07,C03:t cfg=KW tier=q to=300 mem=4 unwind=18 covers=1 funcs=Ipv4Packet::new_checked;Ipv4Packet::payload;Ipv4Packet::verify_checksum;Ipv4Repr::parse bounds=any_bytes_len_0..=32
    #[kani::proof]
    pub(crate) fn view_ipv4() {
        ipv4_view::<32>();
    }
    // @harness props=C07,C03:t cfg=KW tier=t to=1800 mem=8 unwind=18 covers=1 funcs=Ipv4Packet::new_checked;Ipv4Packet::payload;Ipv4Packet::verify_checksum;Ipv4Repr::parse bounds=any_bytes_len_0..=64_(full_60_byte_header)
    #[kani::proof]
    pub(crate) fn view_ipv4_t() {
        ipv4_view::<64>();
    }

    fn ipv6_view<const N: usize>() {
        let bytes: [u8; N] = kani::any();
        let len = any_le(N);
        let b = &bytes[..len];
        if let Ok(p) = Ipv6Packet::new_checked(b) {
            let _ = p.header_len();
            let _ = p.version();
            let _ = p.traffic_class();
            let _ = p.flow_label();
            let _ = p.payload_len();
            let _ = p.total_len();
            let _ = p.next_header();
            let _ = p.hop_limit();
            let _ = p.src_addr();
            let _ = p.dst_addr();
            let pl = p.payload();
            let r = Ipv6Repr::parse(&p);
            kani::cover!(r.is_ok() && pl.len() > 0 && len > p.total_len(), "ipv6: parsed, payload, trailing bytes");
        }
    }
    // @harness props=C07,C03:t cfg=KW tier=q to=300 mem=4 unwind=4 covers=1 funcs=Ipv6Packet::new_checked;Ipv6Packet::payload;Ipv6Repr::parse bounds=any_bytes_len_0..=48
    #[kani::proof]
    pub(crate) fn view_ipv6() {
        ipv6_view::<48>();
    }
    // @harness props=C07,C03:t cfg=KW tier=t to=900 mem=4 unwind=4 covers=1 funcs=Ipv6Packet::new_checked;Ipv6Packet::payload;Ipv6Repr::parse bounds=any_bytes_len_0..=96
    #[kani::proof]
    pub(crate) fn view_ipv6_t() {
        ipv6_view::<96>();
    }

    // the version-dispatching view used by medium-ip interfaces (crate-internal `wire::ip::Packet`)
    // @harness props=C07,C03:t cfg=KW tier=q to=300 mem=4 unwind=18 covers=2 funcs=wire::ip::Packet::new_checked;wire::ip::Packet::version;IpRepr::parse bounds=any_bytes_len_0..=44
    #[kani::proof]
    pub(crate) fn view_ip_generic() {
        const N: usize = 44;
        let bytes: [u8; N] = kani::any();
        let len = any_le(N);
        let b = &bytes[..len];
        if let Ok(p) = crate::wire::ip::Packet::new_checked(b) {
            let v = p.version();
            let r = IpRepr::parse(&p, &ChecksumCapabilities::ignored());
            let _ = IpRepr::parse(&p, &ChecksumCapabilities::default());
            kani::cover!(r.is_ok() && v == 4, "ip: IPv4 parsed");
            kani::cover!(r.is_ok() && v == 6, "ip: IPv6 parsed");
        }
    }

    // ------------------------------------------------------------------ IPv6 extension headers and options

    fn ipv6_ext_view<const N: usize>() {
        let bytes: [u8; N] = kani::any();
        let len = any_le(N);
        let b = &bytes[..len];
        if let Ok(p) = Ipv6ExtHeader::new_checked(b) {
            let _ = p.next_header();
            let _ = p.header_len();
            let pl = p.payload();
            let r = Ipv6ExtHeaderRepr::parse(&p);
            kani::cover!(r.is_ok() && p.header_len() == 1 && pl.len() == 14, "ext header: 16-byte header parsed");
        }
    }
    // @harness props=C07,C03:t cfg=KW tier=q to=300 mem=4 unwind=4 covers=1 funcs=Ipv6ExtHeader::new_checked;Ipv6ExtHeader::payload;Ipv6ExtHeaderRepr::parse bounds=any_bytes_len_0..=24
    #[kani::proof]
    pub(crate) fn view_ipv6_ext_header() {
        ipv6_ext_view::<24>();
    }

    fn ipv6_option_view<const N: usize>() {
        let bytes: [u8; N] = kani::any();
        let len = any_le(N);
        let b = &bytes[..len];
        if let Ok(p) = Ipv6Option::new_checked(b) {
            let t = p.option_type();
            // data_len()/data() are documented to panic on the 1-byte Pad1 option
            if t != Ipv6OptionType::Pad1 {
                let _ = p.data_len();
                let _ = p.data();
            }
            let r = Ipv6OptionRepr::parse(&p);
            kani::cover!(matches!(r, Ok(Ipv6OptionRepr::RouterAlert(_))), "option: router alert parsed");
            kani::cover!(matches!(r, Ok(Ipv6OptionRepr::Pad1)) && len == 1, "option: lone Pad1");
        }
    }
    // @harness props=C07,C03:t cfg=KW tier=q to=300 mem=4 unwind=4 covers=2 funcs=Ipv6Option::new_checked;Ipv6Option::data;Ipv6OptionRepr::parse bounds=any_bytes_len_0..=16
    #[kani::proof]
    pub(crate) fn view_ipv6_option() {
        ipv6_option_view::<16>();
    }

    fn ipv6_options_iter_view<const N: usize>() {
        let bytes: [u8; N] = kani::any();
        let len = any_le(N);
        let b = &bytes[..len];
        let mut n = 0usize;
        let mut failed = false;
        for o in Ipv6OptionsIterator::new(b) {
            match o {
                Ok(_) => n += 1,
                Err(_) => failed = true,
            }
        }
        kani::cover!(n >= 3 && !failed, "options iterator: three or more options, no error");
        kani::cover!(n >= 1 && failed, "options iterator: error after a good option");
    }
    // every option consumes >= 1 byte, an error ends the iteration: <= N+1 calls of next()
    // @harness props=C07,C03:t cfg=KW tier=q to=600 mem=4 unwind=14 opts=term covers=2 funcs=Ipv6OptionsIterator::next;Ipv6Option::new_checked;Ipv6OptionRepr::parse bounds=any_bytes_len_0..=12
    #[kani::proof]
    pub(crate) fn view_ipv6_options_iter() {
        ipv6_options_iter_view::<12>();
    }
    // @harness props=C07,C03:t cfg=KW tier=t to=1800 mem=8 unwind=34 opts=term covers=2 funcs=Ipv6OptionsIterator::next;Ipv6Option::new_checked;Ipv6OptionRepr::parse bounds=any_bytes_len_0..=32
    #[kani::proof]
    pub(crate) fn view_ipv6_options_iter_t() {
        ipv6_options_iter_view::<32>();
    }

    fn ipv6_hbh_view<const N: usize>() {
        let bytes: [u8; N] = kani::any();
        let len = any_le(N);
        let b = &bytes[..len];
        if let Ok(p) = Ipv6HopByHopHeader::new_checked(b) {
            let _ = p.options();
            let r = Ipv6HopByHopRepr::parse(&p);
            kani::cover!(matches!(&r, Ok(x) if x.options.len() == 4), "hop-by-hop: option vector filled");
            kani::cover!(r.is_err(), "hop-by-hop: malformed option rejected");
        }
    }
    // the Repr keeps at most IPV6_HBH_MAX_OPTIONS = 4 options, the loop ends at the 5th
    // @harness props=C07,C03:t cfg=KW tier=q to=600 mem=4 unwind=8 opts=term covers=2 funcs=Ipv6HopByHopHeader::new_checked;Ipv6HopByHopRepr::parse;Ipv6OptionsIterator::next bounds=any_bytes_len_0..=16
    #[kani::proof]
    pub(crate) fn view_ipv6_hbh() {
        ipv6_hbh_view::<16>();
    }

    // @harness props=C07,C03:t cfg=KW tier=q to=300 mem=4 unwind=4 covers=1 funcs=Ipv6FragmentHeader::new_checked;Ipv6FragmentRepr::parse bounds=any_bytes_len_0..=12
    #[kani::proof]
    pub(crate) fn view_ipv6_fragment() {
        const N: usize = 12;
        let bytes: [u8; N] = kani::any();
        let len = any_le(N);
        let b = &bytes[..len];
        if let Ok(p) = Ipv6FragmentHeader::new_checked(b) {
            let _ = p.frag_offset();
            let _ = p.more_frags();
            let _ = p.ident();
            let r = Ipv6FragmentRepr::parse(&p);
            kani::cover!(r.is_ok() && p.more_frags(), "fragment header parsed");
        }
    }

    fn ipv6_routing_view<const N: usize>() {
        let bytes: [u8; N] = kani::any();
        let len = any_le(N);
        let b = &bytes[..len];
        if let Ok(p) = Ipv6RoutingHeader::new_checked(b) {
            let t = p.routing_type();
            let _ = p.segments_left();
            // documented: "may panic if this header is not the Type2 / RPL routing type"
            if t == Ipv6RoutingType::Type2 {
                let _ = p.home_address();
            }
            if t == Ipv6RoutingType::Rpl {
                let _ = p.cmpr_i();
                let _ = p.cmpr_e();
                let _ = p.pad();
                let _ = p.addresses();
            }
            let r = Ipv6RoutingRepr::parse(&p);
            kani::cover!(matches!(r, Ok(Ipv6RoutingRepr::Type2 { .. })), "routing: type 2 parsed");
            kani::cover!(matches!(r, Ok(Ipv6RoutingRepr::Rpl { addresses, .. }) if addresses.len() > 0), "routing: RPL source route with addresses parsed");
        }
    }
    // @harness props=C07,C03:t cfg=KW tier=q to=300 mem=4 unwind=4 covers=2 funcs=Ipv6RoutingHeader::new_checked;Ipv6RoutingHeader::home_address;Ipv6RoutingHeader::addresses;Ipv6RoutingRepr::parse bounds=any_bytes_len_0..=28
    #[kani::proof]
    pub(crate) fn view_ipv6_routing() {
        ipv6_routing_view::<28>();
    }

    // ------------------------------------------------------------------ ICMPv4 / IGMP

    fn icmpv4_view<const N: usize>() {
        let bytes: [u8; N] = kani::any();
        let len = any_le(N);
        let b = &bytes[..len];
        if let Ok(p) = Icmpv4Packet::new_checked(b) {
            let t = p.msg_type();
            let _ = p.msg_code();
            let _ = p.checksum();
            // documented: "may panic if this packet is not an echo request or reply packet"
            if t == Icmpv4Message::EchoRequest || t == Icmpv4Message::EchoReply {
                let _ = p.echo_ident();
                let _ = p.echo_seq_no();
            }
            let _ = p.header_len();
            let _ = p.data();
            let r = Icmpv4Repr::parse(&p, &ChecksumCapabilities::ignored());
            kani::cover!(matches!(r, Ok(Icmpv4Repr::EchoRequest { data, .. }) if data.len() > 0), "icmpv4: echo request with data parsed");
            kani::cover!(matches!(r, Ok(Icmpv4Repr::DstUnreachable { .. })), "icmpv4: destination unreachable with embedded IPv4 header parsed");
        }
    }
    // @harness props=C07,C03:t cfg=KW tier=q to=600 mem=4 unwind=4 covers=2 funcs=Icmpv4Packet::new_checked;Icmpv4Packet::data;Icmpv4Repr::parse;Ipv4Packet::new_checked bounds=any_bytes_len_0..=44
    #[kani::proof]
    pub(crate) fn view_icmpv4() {
        icmpv4_view::<44>();
    }
    // @harness props=C07,C03:t cfg=KW tier=t to=1800 mem=8 unwind=4 covers=2 funcs=Icmpv4Packet::new_checked;Icmpv4Packet::data;Icmpv4Repr::parse;Ipv4Packet::new_checked bounds=any_bytes_len_0..=80
    #[kani::proof]
    pub(crate) fn view_icmpv4_t() {
        icmpv4_view::<80>();
    }
    // checksum verification path (ChecksumCapabilities::default), smaller buffer
    // @harness props=C07,C03:t cfg=KW tier=q to=600 mem=4 unwind=10 covers=1 funcs=Icmpv4Packet::verify_checksum;Icmpv4Repr::parse bounds=any_bytes_len_0..=24
    #[kani::proof]
    pub(crate) fn view_icmpv4_cksum() {
        const N: usize = 24;
        let bytes: [u8; N] = kani::any();
        let len = any_le(N);
        let b = &bytes[..len];
        if let Ok(p) = Icmpv4Packet::new_checked(b) {
            let v = p.verify_checksum();
            let r = Icmpv4Repr::parse(&p, &ChecksumCapabilities::default());
            kani::cover!(!v && r.is_err() && len == N, "icmpv4: bad checksum rejected");
        }
    }

    // @harness props=C07,C03:t cfg=KW tier=q to=300 mem=4 unwind=6 covers=2 funcs=IgmpPacket::new_checked;IgmpPacket::verify_checksum;IgmpRepr::parse bounds=any_bytes_len_0..=12
    #[kani::proof]
    pub(crate) fn view_igmp() {
        const N: usize = 12;
        let bytes: [u8; N] = kani::any();
        let len = any_le(N);
        let b = &bytes[..len];
        if let Ok(p) = IgmpPacket::new_checked(b) {
            let _ = p.msg_type();
            let c = p.max_resp_code();
            let _ = p.checksum();
            let _ = p.group_addr();
            let _ = p.verify_checksum();
            let r = IgmpRepr::parse(&p);
            kani::cover!(matches!(r, Ok(IgmpRepr::MembershipQuery { .. })) && c >= 128, "igmp: query with exponent-coded max response time");
            kani::cover!(matches!(r, Ok(IgmpRepr::LeaveGroup { .. })), "igmp: leave group parsed");
        }
    }

    // ------------------------------------------------------------------ ICMPv6 (RFC 4443 messages, NDISC, MLD)

    /// what a wrapper needs for its reachability witnesses
    struct V6 {
        checked: bool,
        parsed: bool,
        len: usize,
        data_len: usize,
        lladdr: bool,
        mtu: bool,
        prefix: bool,
        redirected: bool,
    }

    /// One harness per message type: the type octet is concrete (it selects header length, accessor
    /// group and parser, so a symbolic type makes symbolic execution walk every parser at once:
    /// measured 1.4 M steps, out of memory), every other byte and the length are symbolic.
    fn icmpv6_view<const N: usize>(ty: u8) -> V6 {
        let mut bytes: [u8; N] = kani::any();
        bytes[0] = ty;
        let len = any_le(N);
        let b = &bytes[..len];
        let src = any_ip6();
        let dst = any_ip6();
        let mut v = V6 { checked: false, parsed: false, len, data_len: 0, lladdr: false, mtu: false, prefix: false, redirected: false };
        if Icmpv6Packet::new_checked(b).is_ok() {
            // `new_checked` = `new_unchecked` + `check_len` and the view is nothing but the buffer
            // reference, so this is the same value as the one inside the `Ok`; taking it from there
            // makes CBMC merge the pointer with the Err path's undefined one, the read of the
            // (concrete) type octet stops being a constant and every parser is explored for every
            // type (measured: echo request 63 s this way vs. 2.4 s).
            let p = Icmpv6Packet::new_unchecked(b);
            v.checked = true;
            let t = p.msg_type();
            let _ = p.msg_code();
            let _ = p.checksum();
            let _ = p.header_len();
            let pl = p.payload();
            match t {
                Icmpv6Message::EchoRequest | Icmpv6Message::EchoReply => {
                    let _ = p.echo_ident();
                    let _ = p.echo_seq_no();
                }
                Icmpv6Message::PktTooBig => {
                    let _ = p.pkt_too_big_mtu();
                }
                Icmpv6Message::ParamProblem => {
                    let _ = p.param_problem_ptr();
                }
                // NDISC getters (wire/ndisc.rs), per message type as documented there
                Icmpv6Message::RouterAdvert => {
                    let _ = p.current_hop_limit();
                    let _ = p.router_flags();
                    let _ = p.router_lifetime();
                    let _ = p.reachable_time();
                    let _ = p.retrans_time();
                }
                Icmpv6Message::NeighborSolicit | Icmpv6Message::NeighborAdvert => {
                    let _ = p.target_addr();
                    let _ = p.neighbor_flags();
                }
                Icmpv6Message::Redirect => {
                    let _ = p.target_addr();
                    let _ = p.dest_addr();
                }
                // MLD getters (wire/mld.rs)
                Icmpv6Message::MldQuery => {
                    let _ = p.max_resp_code();
                    let _ = p.mcast_addr();
                    let _ = p.s_flag();
                    let _ = p.qrv();
                    let _ = p.qqic();
                    let _ = p.num_srcs();
                }
                Icmpv6Message::MldReport => {
                    let _ = p.nr_mcast_addr_rcrds();
                }
                _ => {}
            }
            // Icmpv6Repr::parse dispatches to NdiscRepr::parse / MldRepr::parse (message code 0)
            let r = Icmpv6Repr::parse(&src, &dst, &p, &ChecksumCapabilities::ignored());
            v.parsed = r.is_ok();
            match r {
                Ok(Icmpv6Repr::DstUnreachable { data, .. })
                | Ok(Icmpv6Repr::PktTooBig { data, .. })
                | Ok(Icmpv6Repr::TimeExceeded { data, .. })
                | Ok(Icmpv6Repr::ParamProblem { data, .. })
                | Ok(Icmpv6Repr::EchoRequest { data, .. })
                | Ok(Icmpv6Repr::EchoReply { data, .. })
                | Ok(Icmpv6Repr::Mld(MldRepr::Query { data, .. }))
                | Ok(Icmpv6Repr::Mld(MldRepr::Report { data, .. })) => v.data_len = data.len(),
                Ok(Icmpv6Repr::Ndisc(n)) => match n {
                    NdiscRepr::RouterSolicit { lladdr } => v.lladdr = lladdr.is_some(),
                    NdiscRepr::RouterAdvert { lladdr, mtu, prefix_info, .. } => {
                        v.lladdr = lladdr.is_some();
                        v.mtu = mtu.is_some();
                        v.prefix = prefix_info.is_some();
                    }
                    NdiscRepr::NeighborSolicit { lladdr, .. } | NdiscRepr::NeighborAdvert { lladdr, .. } => v.lladdr = lladdr.is_some(),
                    NdiscRepr::Redirect { lladdr, redirected_hdr, .. } => {
                        v.lladdr = lladdr.is_some();
                        v.redirected = redirected_hdr.is_some();
                    }
                },
                _ => {}
            }
        }
        v
    }

    // @harness props=C07,C03:t cfg=KW tier=q to=900 mem=4 unwind=2 covers=1 funcs=Icmpv6Packet::new_checked;Icmpv6Packet::payload;Icmpv6Repr::parse bounds=type_DstUnreachable;_any_other_bytes_len_0..=56
    #[kani::proof]
    pub(crate) fn view_icmpv6_dst_unreachable() {
        let v = icmpv6_view::<56>(0x01);
        kani::cover!(v.parsed && v.data_len == 8, "icmpv6 dst unreachable: embedded IPv6 header + 8 bytes parsed");
    }
    // @harness props=C07,C03:t cfg=KW tier=q to=900 mem=4 unwind=2 covers=1 funcs=Icmpv6Packet::new_checked;Icmpv6Packet::pkt_too_big_mtu;Icmpv6Repr::parse bounds=type_PktTooBig;_any_other_bytes_len_0..=56
    #[kani::proof]
    pub(crate) fn view_icmpv6_pkt_too_big() {
        let v = icmpv6_view::<56>(0x02);
        kani::cover!(v.parsed && v.data_len == 8, "icmpv6 packet too big: embedded IPv6 header + 8 bytes parsed");
    }
    // @harness props=C07,C03:t cfg=KW tier=q to=900 mem=4 unwind=2 covers=1 funcs=Icmpv6Packet::new_checked;Icmpv6Repr::parse bounds=type_TimeExceeded;_any_other_bytes_len_0..=56
    #[kani::proof]
    pub(crate) fn view_icmpv6_time_exceeded() {
        let v = icmpv6_view::<56>(0x03);
        kani::cover!(v.parsed && v.data_len == 8, "icmpv6 time exceeded: embedded IPv6 header + 8 bytes parsed");
    }
    // @harness props=C07,C03:t cfg=KW tier=q to=900 mem=4 unwind=2 covers=1 funcs=Icmpv6Packet::new_checked;Icmpv6Packet::param_problem_ptr;Icmpv6Repr::parse bounds=type_ParamProblem;_any_other_bytes_len_0..=56
    #[kani::proof]
    pub(crate) fn view_icmpv6_param_problem() {
        let v = icmpv6_view::<56>(0x04);
        kani::cover!(v.parsed && v.data_len == 8, "icmpv6 parameter problem: embedded IPv6 header + 8 bytes parsed");
    }
    // @harness props=C07,C03:t cfg=KW tier=q to=900 mem=4 unwind=2 covers=1 funcs=Icmpv6Packet::new_checked;Icmpv6Packet::echo_ident;Icmpv6Packet::echo_seq_no;Icmpv6Repr::parse bounds=type_EchoRequest;_any_other_bytes_len_0..=32
    #[kani::proof]
    pub(crate) fn view_icmpv6_echo_request() {
        let v = icmpv6_view::<32>(0x80);
        kani::cover!(v.parsed && v.data_len == 24, "icmpv6 echo request with data parsed");
    }
    // @harness props=C07,C03:t cfg=KW tier=q to=900 mem=4 unwind=2 covers=1 funcs=Icmpv6Packet::new_checked;Icmpv6Packet::echo_ident;Icmpv6Packet::echo_seq_no;Icmpv6Repr::parse bounds=type_EchoReply;_any_other_bytes_len_0..=32
    #[kani::proof]
    pub(crate) fn view_icmpv6_echo_reply() {
        let v = icmpv6_view::<32>(0x81);
        kani::cover!(v.parsed && v.data_len == 24, "icmpv6 echo reply with data parsed");
    }
    // @harness props=C07,C03:t cfg=KW tier=q to=900 mem=4 unwind=2 covers=1 funcs=Icmpv6Packet::new_checked;Icmpv6Packet::mcast_addr;Icmpv6Packet::num_srcs;Icmpv6Repr::parse;MldRepr::parse bounds=type_MldQuery;_any_other_bytes_len_0..=48
    #[kani::proof]
    pub(crate) fn view_icmpv6_mld_query() {
        let v = icmpv6_view::<48>(0x82);
        kani::cover!(v.parsed && v.data_len == 16, "mld query with one source parsed");
    }
    // @harness props=C07,C03:t cfg=KW tier=q to=900 mem=4 unwind=2 covers=1 funcs=Icmpv6Packet::new_checked;Icmpv6Packet::nr_mcast_addr_rcrds;Icmpv6Repr::parse;MldRepr::parse bounds=type_MldReport;_any_other_bytes_len_0..=32
    #[kani::proof]
    pub(crate) fn view_icmpv6_mld_report() {
        let v = icmpv6_view::<32>(0x8f);
        kani::cover!(v.parsed && v.data_len == 20, "mld report with one record parsed");
    }
    // NDISC option loop: every option is >= 8 bytes, a zero length ends the loop with an error
    // @harness props=C07,C03:t cfg=KW tier=q to=1200 mem=8 unwind=5 opts=term covers=2 funcs=Icmpv6Packet::new_checked;Icmpv6Repr::parse;NdiscRepr::parse;NdiscOption::new_checked;NdiscOptionRepr::parse bounds=type_RouterSolicit;_any_other_bytes_len_0..=32_(<=3_options)
    #[kani::proof]
    pub(crate) fn view_icmpv6_router_solicit() {
        let v = icmpv6_view::<32>(0x85);
        kani::cover!(v.parsed && v.lladdr && v.len == 32, "router solicitation: three options incl. source link-layer address parsed");
        kani::cover!(v.checked && !v.parsed && v.len == 32, "router solicitation: malformed option rejected");
    }
    // @harness props=C07,C03:t cfg=KW tier=q to=1200 mem=8 unwind=6 opts=term covers=3 funcs=Icmpv6Packet::new_checked;Icmpv6Packet::router_lifetime;Icmpv6Packet::reachable_time;Icmpv6Packet::retrans_time;Icmpv6Repr::parse;NdiscRepr::parse;NdiscOption::new_checked;NdiscOptionRepr::parse bounds=type_RouterAdvert;_any_other_bytes_len_0..=48_(<=4_options)
    #[kani::proof]
    pub(crate) fn view_icmpv6_router_advert() {
        let v = icmpv6_view::<48>(0x86);
        kani::cover!(v.parsed && v.prefix, "router advertisement: prefix-information option parsed");
        kani::cover!(v.parsed && v.lladdr && v.mtu, "router advertisement: link-layer and MTU options parsed");
        kani::cover!(v.checked && !v.parsed, "router advertisement: malformed option rejected");
    }
    // @harness props=C07,C03:t cfg=KW tier=t to=3600 mem=12 unwind=8 opts=term covers=2 funcs=Icmpv6Packet::new_checked;Icmpv6Repr::parse;NdiscRepr::parse;NdiscOption::new_checked;NdiscOptionRepr::parse bounds=type_RouterAdvert;_any_other_bytes_len_0..=64_(<=6_options)
    #[kani::proof]
    pub(crate) fn view_icmpv6_router_advert_t() {
        let v = icmpv6_view::<64>(0x86);
        kani::cover!(v.parsed && v.lladdr && v.mtu && v.prefix, "router advertisement: link-layer, MTU and prefix-information options parsed");
        kani::cover!(v.checked && !v.parsed, "router advertisement: malformed option rejected");
    }
    // @harness props=C07,C03:t cfg=KW tier=q to=1200 mem=8 unwind=5 opts=term covers=2 funcs=Icmpv6Packet::new_checked;Icmpv6Packet::target_addr;Icmpv6Packet::neighbor_flags;Icmpv6Repr::parse;NdiscRepr::parse;NdiscOption::new_checked;NdiscOptionRepr::parse bounds=type_NeighborSolicit;_any_other_bytes_len_0..=48_(<=3_options)
    #[kani::proof]
    pub(crate) fn view_icmpv6_neighbor_solicit() {
        let v = icmpv6_view::<48>(0x87);
        kani::cover!(v.parsed && v.lladdr && v.len == 48, "neighbor solicitation: options incl. source link-layer address parsed");
        kani::cover!(v.checked && !v.parsed, "neighbor solicitation: malformed option rejected");
    }
    // @harness props=C07,C03:t cfg=KW tier=q to=1200 mem=8 unwind=5 opts=term covers=2 funcs=Icmpv6Packet::new_checked;Icmpv6Packet::target_addr;Icmpv6Packet::neighbor_flags;Icmpv6Repr::parse;NdiscRepr::parse;NdiscOption::new_checked;NdiscOptionRepr::parse bounds=type_NeighborAdvert;_any_other_bytes_len_0..=48_(<=3_options)
    #[kani::proof]
    pub(crate) fn view_icmpv6_neighbor_advert() {
        let v = icmpv6_view::<48>(0x88);
        kani::cover!(v.parsed && v.lladdr && v.len == 48, "neighbor advertisement: options incl. target link-layer address parsed");
        kani::cover!(v.checked && !v.parsed, "neighbor advertisement: malformed option rejected");
    }
    // @harness props=C07,C03:t cfg=KW tier=q to=1200 mem=8 unwind=4 opts=term covers=2 funcs=Icmpv6Packet::new_checked;Icmpv6Packet::target_addr;Icmpv6Packet::dest_addr;Icmpv6Repr::parse;NdiscRepr::parse;NdiscOption::new_checked;NdiscOptionRepr::parse bounds=type_Redirect;_any_other_bytes_len_0..=56_(<=2_options)
    #[kani::proof]
    pub(crate) fn view_icmpv6_redirect() {
        let v = icmpv6_view::<56>(0x89);
        kani::cover!(v.parsed && v.lladdr && v.len == 56, "redirect: two options incl. target link-layer address parsed");
        kani::cover!(v.checked && !v.parsed, "redirect: malformed option rejected");
    }
    // large enough for the Redirected Header option (8 + IPv6 header 40 + 8) next to a link-layer option
    // @harness props=C07,C03:t cfg=KW tier=t to=3600 mem=12 unwind=10 opts=term covers=2 funcs=Icmpv6Packet::new_checked;Icmpv6Repr::parse;NdiscRepr::parse;NdiscOption::new_checked;NdiscOptionRepr::parse;Ipv6Packet::new_checked bounds=type_Redirect;_any_other_bytes_len_0..=104_(<=8_options)
    #[kani::proof]
    pub(crate) fn view_icmpv6_redirect_t() {
        let v = icmpv6_view::<104>(0x89);
        kani::cover!(v.parsed && v.lladdr && v.redirected, "redirect: link-layer and redirected-header options parsed");
        kani::cover!(v.checked && !v.parsed, "redirect: malformed option rejected");
    }
    // RPL control (not compiled in) and unassigned types: new_checked must refuse them
    // @harness props=C07,C03:t cfg=KW tier=q to=300 mem=4 unwind=4 covers=1 funcs=Icmpv6Packet::new_checked bounds=type_RplControl_or_any_unassigned_type;_any_other_bytes_len_0..=16
    #[kani::proof]
    pub(crate) fn view_icmpv6_unknown_type() {
        const N: usize = 16;
        let bytes: [u8; N] = kani::any();
        let len = any_le(N);
        let t = Icmpv6Message::from(bytes[0]);
        kani::assume(matches!(t, Icmpv6Message::Unknown(_) | Icmpv6Message::RplControl));
        let r = Icmpv6Packet::new_checked(&bytes[..len]);
        kani::cover!(r.is_err() && len == N, "icmpv6: unsupported type refused");
        if let Ok(p) = r {
            // unreachable if the refusal holds; otherwise the type-independent accessors must still be safe
            let _ = p.msg_type();
            let _ = p.msg_code();
            let _ = p.checksum();
            let _ = p.header_len();
            let _ = p.payload();
        }
    }
    // checksum accessor alone: Icmpv6Repr::parse with checksums on is `verify_checksum` followed by exactly
    // the code the harnesses above run (its one big match cannot be split per type: see icmpv6_view)
    // @harness props=C07,C03:t cfg=KW tier=q to=900 mem=6 unwind=9 covers=2 funcs=Icmpv6Packet::verify_checksum bounds=any_bytes_len_0..=24;_any_addresses
    #[kani::proof]
    pub(crate) fn view_icmpv6_cksum() {
        const N: usize = 24;
        let bytes: [u8; N] = kani::any();
        let len = any_le(N);
        let b = &bytes[..len];
        let src = any_ip6();
        let dst = any_ip6();
        if let Ok(p) = Icmpv6Packet::new_checked(b) {
            let v = p.verify_checksum(&src, &dst);
            kani::cover!(!v && len == N, "icmpv6: checksum mismatch");
            kani::cover!(v && len == N - 1, "icmpv6: checksum of an odd-length message verified");
        }
    }

    fn ndisc_option_view<const N: usize>() {
        let bytes: [u8; N] = kani::any();
        let len = any_le(N);
        let b = &bytes[..len];
        if let Ok(p) = NdiscOption::new_checked(b) {
            let t = p.option_type();
            let _ = p.data_len();
            let _ = p.data();
            // "Getter methods only relevant for ..." groups of wire/ndiscoption.rs
            match t {
                NdiscOptionType::SourceLinkLayerAddr | NdiscOptionType::TargetLinkLayerAddr => {
                    let _ = p.link_layer_addr();
                }
                NdiscOptionType::Mtu => {
                    let _ = p.mtu();
                }
                NdiscOptionType::PrefixInformation => {
                    let _ = p.prefix_len();
                    let _ = p.prefix_flags();
                    let _ = p.valid_lifetime();
                    let _ = p.preferred_lifetime();
                    let _ = p.prefix();
                }
                _ => {}
            }
            let r = NdiscOptionRepr::parse(&p);
            kani::cover!(matches!(r, Ok(NdiscOptionRepr::PrefixInformation(_))), "ndisc option: prefix information parsed");
            kani::cover!(matches!(r, Ok(NdiscOptionRepr::SourceLinkLayerAddr(_))) && p.data_len() == 2, "ndisc option: 16-byte link-layer address option parsed");
        }
    }
    // @harness props=C07,C03:t cfg=KW tier=q to=600 mem=4 unwind=10 covers=2 funcs=NdiscOption::new_checked;NdiscOption::link_layer_addr;NdiscOption::prefix;NdiscOption::data;NdiscOptionRepr::parse bounds=any_bytes_len_0..=40
    #[kani::proof]
    pub(crate) fn view_ndisc_option() {
        ndisc_option_view::<40>();
    }
    // large enough for a Redirected Header option: 8 + IPv6 header 40 + 8 payload bytes
    // @harness props=C07,C03:t cfg=KW tier=q to=600 mem=4 unwind=10 covers=1 funcs=NdiscOption::new_checked;NdiscOptionRepr::parse;Ipv6Packet::new_checked;Ipv6Repr::parse bounds=any_bytes_len_0..=64;_option_type_RedirectedHeader
    #[kani::proof]
    pub(crate) fn view_ndisc_option_redirected() {
        const N: usize = 64;
        let mut bytes: [u8; N] = kani::any();
        bytes[0] = 4; // Type::RedirectedHeader
        let len = any_le(N);
        let b = &bytes[..len];
        if let Ok(p) = NdiscOption::new_checked(b) {
            let _ = p.option_type();
            let _ = p.data_len();
            let _ = p.data();
            let r = NdiscOptionRepr::parse(&p);
            kani::cover!(matches!(r, Ok(NdiscOptionRepr::RedirectedHeader(h)) if h.data.len() == 8), "ndisc option: redirected header with 8 payload bytes parsed");
        }
    }

    // @harness props=C07,C03:t cfg=KW tier=q to=300 mem=4 unwind=4 covers=1 funcs=MldAddressRecord::new_checked;MldAddressRecord::payload;MldAddressRecordRepr::parse bounds=any_bytes_len_0..=40
    #[kani::proof]
    pub(crate) fn view_mld_address_record() {
        const N: usize = 40;
        let bytes: [u8; N] = kani::any();
        let len = any_le(N);
        let b = &bytes[..len];
        if let Ok(p) = MldAddressRecord::new_checked(b) {
            let _ = p.record_type();
            let _ = p.aux_data_len();
            let _ = p.num_srcs();
            let _ = p.mcast_addr();
            let pl = p.payload();
            let r = MldAddressRecordRepr::parse(&p);
            kani::cover!(r.is_ok() && pl.len() == 16 && p.num_srcs() == 9, "mld record: num_srcs larger than the record parsed");
        }
    }

    // ------------------------------------------------------------------ UDP / TCP

    fn udp_view<const N: usize>() {
        let bytes: [u8; N] = kani::any();
        let len = any_le(N);
        let b = &bytes[..len];
        let src = any_ip4();
        let dst = any_ip4();
        if let Ok(p) = UdpPacket::new_checked(b) {
            let _ = p.src_port();
            let _ = p.dst_port();
            let _ = p.len();
            let _ = p.checksum();
            let pl = p.payload();
            let r = UdpRepr::parse(&p, &src, &dst, &ChecksumCapabilities::ignored());
            kani::cover!(r.is_ok() && pl.len() > 0 && len > p.len() as usize, "udp: parsed, payload, trailing bytes");
        }
    }
    // @harness props=C07,C03:t cfg=KW tier=q to=300 mem=4 unwind=4 covers=1 funcs=UdpPacket::new_checked;UdpPacket::payload;UdpRepr::parse bounds=any_bytes_len_0..=32
    #[kani::proof]
    pub(crate) fn view_udp() {
        udp_view::<32>();
    }
    // @harness props=C07,C03:t cfg=KW tier=t to=900 mem=4 unwind=4 covers=1 funcs=UdpPacket::new_checked;UdpPacket::payload;UdpRepr::parse bounds=any_bytes_len_0..=96
    #[kani::proof]
    pub(crate) fn view_udp_t() {
        udp_view::<96>();
    }
    // checksum verification path, IPv4 and IPv6 pseudo-headers
    // @harness props=C07,C03:t cfg=KW tier=q to=900 mem=6 unwind=8 covers=2 funcs=UdpPacket::verify_checksum;UdpPacket::verify_partial_checksum;UdpRepr::parse bounds=any_bytes_len_0..=16
    #[kani::proof]
    pub(crate) fn view_udp_cksum() {
        const N: usize = 16;
        let bytes: [u8; N] = kani::any();
        let len = any_le(N);
        let b = &bytes[..len];
        let v6: bool = kani::any();
        let (src, dst) = if v6 { (IpAddress::Ipv6(any_ip6()), IpAddress::Ipv6(any_ip6())) } else { (any_ip4(), any_ip4()) };
        if let Ok(p) = UdpPacket::new_checked(b) {
            let v = p.verify_checksum(&src, &dst);
            let _ = p.verify_partial_checksum(&src, &dst);
            let r = UdpRepr::parse(&p, &src, &dst, &ChecksumCapabilities::default());
            kani::cover!(!v && r.is_err() && p.dst_port() != 0 && v6, "udp/ipv6: bad checksum rejected");
            kani::cover!(r.is_ok() && p.checksum() == 0 && !v6, "udp/ipv4: absent checksum accepted");
        }
    }

    // TCP: the option walk is done by four functions (Repr::parse, selective_ack_permitted,
    // selective_ack_ranges, options_summary) over the same bytes; one harness each (four 13-fold
    // unrolled option parsers in one query ran out of memory).
    // Every option consumes >= 1 byte: <= header_len-20 iterations (+1) of each option loop.
    fn tcp_view<const N: usize>() {
        let bytes: [u8; N] = kani::any();
        let len = any_le(N);
        let b = &bytes[..len];
        let src = any_ip4();
        let dst = any_ip4();
        if TcpPacket::new_checked(b).is_err() {
            return;
        }
        // same value as the one inside the Ok (see icmpv6_view): keeps the buffer pointer unmerged
        let p = TcpPacket::new_unchecked(b);
        let _ = p.src_port();
        let _ = p.dst_port();
        let _ = p.seq_number();
        let _ = p.ack_number();
        let _ = p.fin();
        let _ = p.syn();
        let _ = p.rst();
        let _ = p.psh();
        let _ = p.ack();
        let _ = p.urg();
        let _ = p.ece();
        let _ = p.cwr();
        let _ = p.ns();
        let _ = p.header_len();
        let _ = p.window_len();
        let _ = p.checksum();
        let _ = p.urgent_at();
        let _ = p.segment_len();
        let _ = p.options();
        let _ = p.payload();
        let r = TcpRepr::parse(&p, &src, &dst, &ChecksumCapabilities::ignored());
        kani::cover!(matches!(&r, Ok(x) if x.max_seg_size.is_some() && x.window_scale.is_some() && x.payload.len() > 0), "tcp: parsed with MSS and window-scale options and payload");
        kani::cover!(r.is_err() && p.src_port() != 0 && p.dst_port() != 0 && !p.fin() && !p.rst() && !p.syn(), "tcp: malformed option rejected");
    }
    fn tcp_sack_permitted_view<const N: usize>() {
        let bytes: [u8; N] = kani::any();
        let len = any_le(N);
        let b = &bytes[..len];
        if TcpPacket::new_checked(b).is_err() {
            return;
        }
        let p = TcpPacket::new_unchecked(b);
        let a = p.selective_ack_permitted();
        kani::cover!(matches!(a, Ok(true)) && b[20] != 4, "tcp: SACK-permitted found behind another option");
        kani::cover!(a.is_err(), "tcp: malformed option reported");
    }
    fn tcp_sack_ranges_view<const N: usize>() {
        let bytes: [u8; N] = kani::any();
        let len = any_le(N);
        let b = &bytes[..len];
        if TcpPacket::new_checked(b).is_err() {
            return;
        }
        let p = TcpPacket::new_unchecked(b);
        let r = p.selective_ack_ranges();
        kani::cover!(matches!(r, Ok(x) if x[0].is_none()) && p.header_len() >= 28, "tcp: no SACK block among several options");
        kani::cover!(r.is_err(), "tcp: malformed option reported");
    }
    fn tcp_options_summary_view<const N: usize>() {
        let bytes: [u8; N] = kani::any();
        let len = any_le(N);
        let b = &bytes[..len];
        if TcpPacket::new_checked(b).is_err() {
            return;
        }
        let p = TcpPacket::new_unchecked(b);
        let s = p.options_summary();
        kani::cover!(matches!(s, Ok(x) if x.window_scale.is_some() && x.max_segment_size.is_some()), "tcp: options summary with MSS and window scale");
        kani::cover!(s.is_err(), "tcp: options summary rejects a malformed option");
    }
    // @harness props=C07,C03:t cfg=KW tier=q to=1200 mem=8 unwind=10 opts=term covers=2 funcs=TcpPacket::new_checked;TcpPacket::options;TcpPacket::payload;TcpPacket::segment_len;TcpOption::parse;TcpRepr::parse bounds=any_bytes_len_0..=30_(<=8_option_bytes)
    #[kani::proof]
    pub(crate) fn view_tcp() {
        tcp_view::<30>();
    }
    // @harness props=C07,C03:t cfg=KW tier=t to=1800 mem=8 unwind=10 opts=term covers=2 funcs=TcpPacket::selective_ack_permitted;TcpOption::parse bounds=any_bytes_len_0..=28_(<=8_option_bytes)
    #[kani::proof]
    pub(crate) fn view_tcp_sack_permitted() {
        tcp_sack_permitted_view::<28>();
    }
    // @harness props=C07,C03:t cfg=KW tier=q to=1200 mem=8 unwind=10 opts=term covers=2 funcs=TcpPacket::selective_ack_ranges;TcpOption::parse bounds=any_bytes_len_0..=28_(<=8_option_bytes)
    #[kani::proof]
    pub(crate) fn view_tcp_sack_ranges() {
        tcp_sack_ranges_view::<28>();
    }
    // @harness props=C07,C03:t cfg=KW tier=q to=1200 mem=8 unwind=10 opts=term covers=2 funcs=TcpPacket::options_summary;TcpOption::parse bounds=any_bytes_len_0..=28_(<=8_option_bytes)
    #[kani::proof]
    pub(crate) fn view_tcp_options_summary() {
        tcp_options_summary_view::<28>();
    }
    // (removed from the thorough tier: view_tcp_t - out of memory at 16 GB in the thorough sweep; was: any_bytes_len_0..=64_(all_40_option_bytes))
    // (removed from the thorough tier: view_tcp_sack_permitted_t - out of memory at 16 GB in the thorough sweep; was: any_bytes_len_0..=60_(all_40_option_bytes))
    // (removed from the thorough tier: view_tcp_sack_ranges_t - out of memory at 16 GB in the thorough sweep; was: any_bytes_len_0..=60_(all_40_option_bytes))
    // (removed from the thorough tier: view_tcp_options_summary_t - out of memory at 16 GB in the thorough sweep; was: any_bytes_len_0..=60_(all_40_option_bytes))

    fn tcp_option_view<const N: usize>() {
        let bytes: [u8; N] = kani::any();
        let len = any_le(N);
        let b = &bytes[..len];
        let r = TcpOption::parse(b);
        kani::cover!(matches!(r, Ok((_, TcpOption::SackRange(x))) if x[2].is_some()), "tcp option: three SACK blocks");
        kani::cover!(matches!(r, Ok((_, TcpOption::Unknown { data, .. })) if data.len() == 0), "tcp option: unknown kind, length 2");
        kani::cover!(matches!(r, Ok((rest, _)) if rest.len() + 1 == len), "tcp option: one-byte option");
    }
    // @harness props=C07,C03:t cfg=KW tier=q to=600 mem=4 unwind=6 covers=3 funcs=TcpOption::parse bounds=any_bytes_len_0..=40
    #[kani::proof]
    pub(crate) fn view_tcp_option() {
        tcp_option_view::<40>();
    }
    // checksum verification path
    // @harness props=C07,C03:t cfg=KW tier=q to=900 mem=6 unwind=8 covers=1 funcs=TcpPacket::verify_checksum;TcpPacket::verify_partial_checksum;TcpRepr::parse bounds=any_bytes_len_0..=22_(header_without_options_+_2_payload_bytes)
    #[kani::proof]
    pub(crate) fn view_tcp_cksum() {
        const N: usize = 22;
        let bytes: [u8; N] = kani::any();
        let len = any_le(N);
        let b = &bytes[..len];
        let src = any_ip4();
        let dst = any_ip4();
        if let Ok(p) = TcpPacket::new_checked(b) {
            let v = p.verify_checksum(&src, &dst);
            let _ = p.verify_partial_checksum(&src, &dst);
            let r = TcpRepr::parse(&p, &src, &dst, &ChecksumCapabilities::default());
            kani::cover!(!v && r.is_err() && p.src_port() != 0 && p.dst_port() != 0, "tcp: bad checksum rejected");
        }
    }

    // ------------------------------------------------------------------ DHCPv4

    /// 240 fixed header bytes + up to L-240 option bytes, all symbolic: accessors and the options iterator
    fn dhcp_view<const L: usize>() {
        let bytes: [u8; L] = kani::any();
        let len = any_le(L);
        let b = &bytes[..len];
        if DhcpPacket::new_checked(b).is_err() {
            return;
        }
        // same value as the one inside the Ok (see icmpv6_view)
        let p = DhcpPacket::new_unchecked(b);
        let _ = p.opcode();
        let _ = p.hardware_type();
        let _ = p.hardware_len();
        let _ = p.transaction_id();
        let _ = p.client_hardware_address();
        let _ = p.hops();
        let _ = p.secs();
        let _ = p.magic_number();
        let _ = p.client_ip();
        let _ = p.your_ip();
        let _ = p.server_ip();
        let _ = p.relay_agent_ip();
        let _ = p.flags();
        let mut n = 0usize;
        let mut last = 0usize;
        for o in p.options() {
            n += 1;
            last = o.data.len();
        }
        kani::cover!(n >= 2, "dhcp: two or more options iterated");
        kani::cover!(n == 1 && last + 2 == L - 240, "dhcp: one option filling the buffer");
    }
    /// DhcpRepr::parse (which runs the options iterator itself)
    fn dhcp_repr_view<const L: usize>() {
        let bytes: [u8; L] = kani::any();
        let len = any_le(L);
        let b = &bytes[..len];
        if DhcpPacket::new_checked(b).is_err() {
            return;
        }
        let p = DhcpPacket::new_unchecked(b);
        let r = DhcpRepr::parse(&p);
        kani::cover!(matches!(&r, Ok(x) if x.dns_servers.is_some()), "dhcp: parsed with a DNS-server option");
        kani::cover!(matches!(&r, Ok(x) if x.dns_servers.is_none()), "dhcp: parsed, message type only");
    }
    // option walker: every step consumes >= 1 byte (pad) or >= 2 (option): <= T+1 iterations
    // @harness props=C07,C03:t cfg=KW tier=q to=1200 mem=8 unwind=8 opts=term covers=2 funcs=DhcpPacket::new_checked;DhcpPacket::options;DhcpPacket::client_hardware_address;DhcpPacket::flags bounds=any_bytes_len_0..=246_(240_header_+_<=6_option_bytes)
    #[kani::proof]
    pub(crate) fn view_dhcp() {
        dhcp_view::<246>();
    }
    // (removed from the thorough tier: view_dhcp_t - out of memory at 16 GB in the thorough sweep; was: any_bytes_len_0..=256_(240_header_+_<=16_option_bytes))
    // DhcpRepr::parse on free-form option bytes is out of reach of the quick tier (5 option bytes: 1.3 M
    // steps, 10 min; 9 bytes: no answer in 25 min), so the quick tier runs it on option lists of concrete
    // shape (kinds and lengths from a template, all values and the fixed header symbolic, optionally one
    // length octet symbolic) and the thorough tier on 5 free bytes.
    // @harness props=C07,C03:t cfg=KW tier=t to=3600 mem=12 unwind=7 opts=term,fs300 covers=2 funcs=DhcpRepr::parse;DhcpPacket::options bounds=any_bytes_len_0..=245_(240_header_+_<=5_option_bytes)
    #[kani::proof]
    pub(crate) fn view_dhcp_repr_t() {
        dhcp_repr_view::<245>();
    }

    /// `shape`: option kinds and lengths; values, header and magic cookie symbolic; `bad` = (index, l): the
    /// length octet of that option is written as `l` instead of the shape's (unused: see below);
    /// `cut`: the buffer ends `cut` bytes before the end of the option list.
    fn dhcp_shape_view<const K: usize>(shape: [(u8, u8); K], bad: (usize, u8), cut: usize) -> (bool, bool, bool, bool) {
        let mut bytes = [0u8; 300];
        let hdr: [u8; 34] = kani::any();
        bytes[..34].copy_from_slice(&hdr);
        let magic: [u8; 4] = kani::any();
        bytes[236..240].copy_from_slice(&magic);
        let mut o = 240;
        let mut j = 0;
        while j < K {
            let (kind, l) = shape[j];
            bytes[o] = kind;
            bytes[o + 1] = if j == bad.0 { bad.1 } else { l };
            let v: [u8; 8] = kani::any();
            let mut m = 0;
            while m < l as usize {
                bytes[o + 2 + m] = v[m];
                m += 1;
            }
            o += 2 + l as usize;
            j += 1;
        }
        bytes[o] = 0; // pad
        bytes[o + 1] = 255; // end
        let b = &bytes[..o + 2 - cut];
        if DhcpPacket::new_checked(b).is_err() {
            return (false, false, false, false);
        }
        let p = DhcpPacket::new_unchecked(b);
        match DhcpRepr::parse(&p) {
            Ok(r) => (true, r.dns_servers.is_some(), r.lease_duration.is_some(), r.client_identifier.is_some()),
            Err(_) => (false, false, false, false),
        }
    }
    // @harness props=C07,C03:t cfg=KW tier=q to=600 mem=6 unwind=12 opts=term,fs300 covers=1 funcs=DhcpRepr::parse;DhcpPacket::options bounds=option_list_shape_53/1,1/4,3/4,51/4,58/4,59/4,54/4,6/8,pad,end;_all_values_and_header_symbolic
    #[kani::proof]
    pub(crate) fn view_dhcp_repr_shape_server() {
        let r = dhcp_shape_view::<8>([(53, 1), (1, 4), (3, 4), (51, 4), (58, 4), (59, 4), (54, 4), (6, 8)], (99, 0), 0);
        kani::cover!(r.0 && r.1 && r.2, "dhcp: server-shaped option list parsed");
    }
    // @harness props=C07,C03:t cfg=KW tier=q to=600 mem=6 unwind=12 opts=term,fs300 covers=1 funcs=DhcpRepr::parse;DhcpPacket::options bounds=option_list_shape_53/1,61/7,50/4,57/2,55/3,pad,end;_all_values_and_header_symbolic
    #[kani::proof]
    pub(crate) fn view_dhcp_repr_shape_client() {
        let r = dhcp_shape_view::<5>([(53, 1), (61, 7), (50, 4), (57, 2), (55, 3)], (99, 0), 0);
        kani::cover!(r.0 && r.3, "dhcp: client-shaped option list parsed");
    }
    // (A corrupted length octet in the middle of the list re-aligns the walk onto value bytes, i.e. makes
    // the remainder free-form: neither symbolic nor case-split lengths finished within 30 min; that case
    // is covered only up to 5 free option bytes by view_dhcp_repr_t and 6 by view_dhcp.)
    // truncated message: the buffer ends inside the last option
    // @harness props=C07,C03:t cfg=KW tier=q to=600 mem=6 unwind=12 opts=term,fs300 covers=1 funcs=DhcpRepr::parse;DhcpPacket::options bounds=option_list_shape_53/1,51/4,6/8_cut_5_bytes_short
    #[kani::proof]
    pub(crate) fn view_dhcp_repr_shape_truncated() {
        let r = dhcp_shape_view::<3>([(53, 1), (51, 4), (6, 8)], (99, 0), 5);
        kani::cover!(r.0 && !r.1 && r.2, "dhcp: truncated last option ignored");
    }

    // sname / boot-file strings: K leading bytes of each field symbolic, the remainder zero
    // (fs300: the 240-byte array is split into scalars, so the position() scan sees the zero tail as
    // constants and stops after K+1 steps instead of being unrolled 74/128 times)
    // @harness props=C07 cfg=KW tier=t to=1800 mem=8 unwind=10 opts=fs300 covers=2 funcs=DhcpPacket::get_sname;DhcpPacket::get_boot_file bounds=240-byte_packet;_first_6_bytes_of_sname_and_of_file_symbolic;_rest_zero
    #[kani::proof]
    pub(crate) fn view_dhcp_strings() {
        const K: usize = 6;
        let mut bytes = [0u8; 240];
        let s: [u8; K] = kani::any();
        let f: [u8; K] = kani::any();
        let mut i = 0;
        while i < K {
            bytes[34 + i] = s[i];
            bytes[108 + i] = f[i];
            i += 1;
        }
        if let Ok(p) = DhcpPacket::new_checked(&bytes[..]) {
            let a = p.get_sname();
            let c = p.get_boot_file();
            kani::cover!(matches!(a, Ok(x) if x.len() == K), "dhcp: 6-character sname");
            kani::cover!(c.is_err() && f[0] != 0, "dhcp: boot file name not UTF-8");
        }
    }

    // ------------------------------------------------------------------ DNS

    /// header accessors, then what socket::dns does with a response: one question, then answer records
    fn dns_view<const N: usize>() {
        // a record is >= 11 bytes, the question >= 5: no more than R records fit
        let r_max: usize = (N - 12 - 5) / 11;
        let bytes: [u8; N] = kani::any();
        let len = any_le(N);
        let b = &bytes[..len];
        if DnsPacket::new_checked(b).is_ok() {
            // same value as the one inside the Ok (see icmpv6_view)
            let p = DnsPacket::new_unchecked(b);
            let _ = p.transaction_id();
            let _ = p.flags();
            let _ = p.opcode();
            let _ = p.rcode();
            let _ = p.question_count();
            let _ = p.authority_record_count();
            let _ = p.additional_record_count();
            let an = p.answer_record_count() as usize;
            let payload = p.payload();
            let mut answers = 0usize;
            let mut q_ok = false;
            let mut a_ok = false;
            if let Ok((mut rest, q)) = DnsQuestion::parse(payload) {
                q_ok = true;
                let mut i = 0;
                // the record loop of socket::dns; `i <= r_max` only stops symbolic execution where the
                // bytes are used up anyway (iteration r_max+1 necessarily fails)
                while i < an && i <= r_max {
                    match DnsRecord::parse(rest) {
                        Ok((r2, rec)) => {
                            rest = r2;
                            answers += 1;
                            a_ok = true;
                        }
                        Err(_) => break,
                    }
                    i += 1;
                }
            }
            kani::cover!(q_ok && a_ok, "dns: question and an answer record parsed");
            kani::cover!(q_ok && an > 0 && answers == 0, "dns: truncated answer rejected");
        }
    }
    // name walker: >= 1 byte per step: <= N-12 iterations (+1)
    // @harness props=C07,C03:t cfg=KW tier=q to=1200 mem=8 unwind=18 opts=term covers=2 funcs=DnsPacket::new_checked;DnsPacket::payload;DnsQuestion::parse;DnsRecord::parse;DnsRecordData::parse bounds=any_bytes_len_0..=28_(12_header_+_<=16;_question_+_<=1_record)
    #[kani::proof]
    pub(crate) fn view_dns() {
        dns_view::<28>();
    }
    // (removed from the thorough tier: view_dns_t - out of memory at 16 GB in the thorough sweep; was: any_bytes_len_0..=52_(12_header_+_<=40;_question_+_<=3_records))

    // DnsPacket::parse_name.  Iterating a whole name in one query is out of reach (nested symbolic
    // slices: 12 bytes = 2.7 M steps, out of memory at 12 GB), so the harness takes ONE step from ANY
    // iterator state.  The iterator's state is the pair (bytes, packet); `packet` always is a prefix
    // `b[..q]` of the buffer (`packet = &packet[..ptr]`) and `bytes` a sub-slice `b[s..e]` of it
    // (`bytes = &packet[ptr..]`, `bytes = &bytes[1 + len..]`), and a fresh `parse_name(&b[s..e])` on the view
    // of `b[..q]` starts in exactly that state: every state a longer iteration can reach is covered.
    // Termination of one step: the first jump goes below q, every further one needs a 2-byte pointer
    // inside the part just cut off, so <= q/2+1 jumps (+1 final step): unwind = N/2 + 3, and an
    // unwinding failure counts as a violation (self-referential and mutually referential pointers
    // are inside the quantification).  Termination of the whole iteration then follows from the
    // lexicographic measure (|packet|, |bytes|), which every step that returns a label decreases.
    fn dns_name_step_view<const N: usize>() {
        let bytes: [u8; N] = kani::any();
        let len = any_le(N);
        let b = &bytes[..len];
        if DnsPacket::new_checked(b).is_err() {
            return;
        }
        let q = any_le(N);
        let s = any_le(N);
        let e = any_le(N);
        kani::assume(q <= len && s <= e && e <= len);
        let p = DnsPacket::new_unchecked(&b[..q]);
        let mut it = p.parse_name(&b[s..e]);
        let r = it.next();
        kani::cover!(matches!(r, Some(Ok(l)) if l.len() == 3) && b[s] >= 0xc0, "dns name step: pointer followed, label returned");
        kani::cover!(matches!(r, Some(Err(_))) && s + 1 < e && b[s] == 0xc0 && b[s + 1] as usize == s && q > s, "dns name step: pointer to itself rejected");
        kani::cover!(r.is_none(), "dns name step: end of name");
    }
    // @harness props=C07,C03:t cfg=KW tier=q to=900 mem=6 unwind=19 opts=term covers=3 funcs=DnsPacket::parse_name bounds=any_bytes_len_0..=32;_one_next()_from_any_iterator_state_(bytes=b[s..e],_packet=b[..q])
    #[kani::proof]
    pub(crate) fn view_dns_name_step() {
        dns_name_step_view::<32>();
    }
    // @harness props=C07,C03:t cfg=KW tier=t to=3600 mem=12 unwind=35 opts=term covers=3 funcs=DnsPacket::parse_name bounds=any_bytes_len_0..=64;_one_next()_from_any_iterator_state_(bytes=b[s..e],_packet=b[..q])
    #[kani::proof]
    pub(crate) fn view_dns_name_step_t() {
        dns_name_step_view::<64>();
    }
    // The first three steps of a real iteration, chained (state handed over by the iterator itself).
    // @harness props=C07,C03:t cfg=KW tier=t to=1800 mem=8 unwind=11 opts=term covers=1 funcs=DnsPacket::parse_name bounds=any_bytes_len_0..=16;_name_at_any_offset;_first_3_steps
    #[kani::proof]
    pub(crate) fn view_dns_name_three_steps() {
        const N: usize = 16;
        let bytes: [u8; N] = kani::any();
        let len = any_le(N);
        let b = &bytes[..len];
        if DnsPacket::new_checked(b).is_err() {
            return;
        }
        let p = DnsPacket::new_unchecked(b);
        let off = any_le(N);
        kani::assume(off <= len);
        let mut it = p.parse_name(&b[off..]);
        let r1 = it.next();
        if let Some(Ok(_)) = r1 {
            let r2 = it.next();
            if let Some(Ok(_)) = r2 {
                let r3 = it.next();
                kani::cover!(r3.is_none() && b[off] >= 0xc0, "dns name: compressed name of two labels read to its end");
            }
        }
    }

    // ------------------------------------------------------------------ IEEE 802.15.4

    fn ieee802154_view<const N: usize>() {
        let bytes: [u8; N] = kani::any();
        let len = any_le(N);
        let b = &bytes[..len];
        if Ieee802154Frame::new_checked(b).is_err() {
            return;
        }
        // same value as the one inside the Ok (see icmpv6_view)
        let p = Ieee802154Frame::new_unchecked(b);
        let _ = p.frame_type();
        let _ = p.security_enabled();
        let _ = p.frame_pending();
        let _ = p.ack_request();
        let _ = p.pan_id_compression();
        let _ = p.sequence_number_suppression();
        let _ = p.ie_present();
        let _ = p.dst_addressing_mode();
        let _ = p.frame_version();
        let _ = p.src_addressing_mode();
        let _ = p.sequence_number();
        let _ = p.dst_pan_id();
        let _ = p.dst_addr();
        let _ = p.src_pan_id();
        let _ = p.src_addr();
        let _ = p.mac_header();
        let pl = p.payload();
        let r = Ieee802154Repr::parse(&p);
        kani::cover!(matches!(&r, Ok(x) if matches!(x.dst_addr, Some(Ieee802154Address::Extended(_))) && matches!(x.src_addr, Some(Ieee802154Address::Short(_)))) && matches!(pl, Some(d) if d.len() > 0), "802.15.4: data frame, extended dst, short src, payload");
        kani::cover!(r.is_ok() && p.security_enabled(), "802.15.4: secured frame parsed");
    }
    // @harness props=C07,C03:t cfg=KW tier=q to=900 mem=6 unwind=10 covers=2 funcs=Ieee802154Frame::new_checked;Ieee802154Frame::dst_addr;Ieee802154Frame::src_addr;Ieee802154Frame::mac_header;Ieee802154Frame::payload;Ieee802154Repr::parse bounds=any_bytes_len_0..=40
    #[kani::proof]
    pub(crate) fn view_ieee802154() {
        ieee802154_view::<40>();
    }

    // The auxiliary-security-header accessors, only on frames whose Security Enabled bit is set
    // (`check_len` accounts for that header exactly when the bit is set).  Three harnesses, so that a
    // failure names the accessor group: control byte + frame counter / key identifier / MIC.
    // @harness props=C07,C03:t cfg=KW tier=q to=900 mem=6 unwind=10 covers=1 funcs=Ieee802154Frame::security_level;Ieee802154Frame::key_identifier_mode;Ieee802154Frame::frame_counter_suppressed;Ieee802154Frame::frame_counter bounds=any_bytes_len_0..=40;_security_enabled_frames
    #[kani::proof]
    pub(crate) fn view_ieee802154_sec_control() {
        const N: usize = 40;
        let bytes: [u8; N] = kani::any();
        let len = any_le(N);
        let b = &bytes[..len];
        if Ieee802154Frame::new_checked(b).is_err() {
            return;
        }
        let p = Ieee802154Frame::new_unchecked(b);
        if p.security_enabled() {
            let _ = p.security_level();
            let _ = p.key_identifier_mode();
            let _ = p.frame_counter_suppressed();
            let c = p.frame_counter();
            kani::cover!(c.is_some() && p.key_identifier_mode() == 3, "802.15.4: frame counter present, 9-byte key identifier");
        }
    }
    // @harness props=C07,C03:t cfg=KW tier=q to=900 mem=6 unwind=10 covers=1 funcs=Ieee802154Frame::key_source;Ieee802154Frame::key_index;Ieee802154Frame::key_identifier bounds=any_bytes_len_0..=40;_security_enabled_frames
    #[kani::proof]
    pub(crate) fn view_ieee802154_sec_key() {
        const N: usize = 40;
        let bytes: [u8; N] = kani::any();
        let len = any_le(N);
        let b = &bytes[..len];
        if Ieee802154Frame::new_checked(b).is_err() {
            return;
        }
        let p = Ieee802154Frame::new_unchecked(b);
        if p.security_enabled() {
            let s = p.key_source();
            let i = p.key_index();
            kani::cover!(matches!(s, Some(x) if x.len() == 8) && i.is_some(), "802.15.4: 8-byte key source and key index read");
        }
    }
    // @harness props=C07,C03:t cfg=KW tier=q to=900 mem=6 unwind=10 covers=1 funcs=Ieee802154Frame::message_integrity_code bounds=any_bytes_len_0..=40;_security_enabled_frames
    #[kani::proof]
    pub(crate) fn view_ieee802154_sec_mic() {
        const N: usize = 40;
        let bytes: [u8; N] = kani::any();
        let len = any_le(N);
        let b = &bytes[..len];
        if Ieee802154Frame::new_checked(b).is_err() {
            return;
        }
        let p = Ieee802154Frame::new_unchecked(b);
        if p.security_enabled() {
            let m = p.message_integrity_code();
            kani::cover!(matches!(m, Some(x) if x.len() == 16), "802.15.4: 16-byte MIC read");
        }
    }

    // ------------------------------------------------------------------ 6LoWPAN

    // @harness props=C07,C03:t cfg=KW tier=q to=300 mem=4 unwind=4 covers=2 funcs=SixlowpanPacket::dispatch;SixlowpanNhcPacket::dispatch;SixlowpanFragPacket::new_checked;SixlowpanFragPacket::payload;SixlowpanFragRepr::parse bounds=any_bytes_len_0..=12
    #[kani::proof]
    pub(crate) fn view_sixlowpan_frag() {
        const N: usize = 12;
        let bytes: [u8; N] = kani::any();
        let len = any_le(N);
        let b = &bytes[..len];
        let _ = SixlowpanPacket::dispatch(b);
        let _ = SixlowpanNhcPacket::dispatch(b);
        if let Ok(p) = SixlowpanFragPacket::new_checked(b) {
            let _ = p.dispatch();
            let _ = p.datagram_size();
            let _ = p.datagram_tag();
            let _ = p.datagram_offset();
            let first = p.is_first_fragment();
            let pl = p.payload();
            let r = SixlowpanFragRepr::parse(&p);
            kani::cover!(r.is_ok() && first && pl.len() > 0, "6lowpan: first fragment parsed");
            kani::cover!(r.is_ok() && !first && len == 5, "6lowpan: bare subsequent-fragment header parsed");
        }
    }

    fn sixlowpan_iphc_view<const N: usize>() {
        let bytes: [u8; N] = kani::any();
        let len = any_le(N);
        let b = &bytes[..len];
        let ll_src = any_ll();
        let ll_dst = any_ll();
        let ctx: [SixlowpanAddressContext; 2] = [SixlowpanAddressContext(kani::any()), SixlowpanAddressContext(kani::any())];
        let nctx = any_le(2);
        if SixlowpanIphcPacket::new_checked(b).is_err() {
            return;
        }
        // same value as the one inside the Ok (see icmpv6_view)
        let p = SixlowpanIphcPacket::new_unchecked(b);
        let _ = p.next_header();
        let _ = p.hop_limit();
        let _ = p.src_context_id();
        let _ = p.dst_context_id();
        let _ = p.ecn_field();
        let _ = p.dscp_field();
        let _ = p.flow_label_field();
        let _ = p.src_addr();
        let _ = p.dst_addr();
        let _ = p.header_len();
        let pl = p.payload();
        let r = SixlowpanIphcRepr::parse(&p, ll_src, ll_dst, &ctx[..nctx]);
        kani::cover!(r.is_ok() && p.header_len() == 41, "iphc: everything carried in-line parsed");
        kani::cover!(r.is_ok() && p.src_context_id().is_some() && pl.len() > 0, "iphc: context-based address resolved");
    }
    // @harness props=C07,C03:t cfg=KW tier=q to=900 mem=6 unwind=18 covers=2 funcs=SixlowpanIphcPacket::new_checked;SixlowpanIphcPacket::src_addr;SixlowpanIphcPacket::dst_addr;SixlowpanIphcPacket::payload;SixlowpanIphcRepr::parse;UnresolvedAddress::resolve bounds=any_bytes_len_0..=44;_any_link-layer_addresses;_0..=2_address_contexts
    #[kani::proof]
    pub(crate) fn view_sixlowpan_iphc() {
        sixlowpan_iphc_view::<44>();
    }

    // @harness props=C07,C03:t cfg=KW tier=q to=300 mem=4 unwind=4 covers=1 funcs=SixlowpanExtHeaderPacket::new_checked;SixlowpanExtHeaderPacket::extension_header_id;SixlowpanExtHeaderPacket::length;SixlowpanExtHeaderPacket::next_header;SixlowpanExtHeaderRepr::parse bounds=any_bytes_len_0..=16
    #[kani::proof]
    pub(crate) fn view_sixlowpan_ext_header() {
        const N: usize = 16;
        let bytes: [u8; N] = kani::any();
        let len = any_le(N);
        let b = &bytes[..len];
        if let Ok(p) = SixlowpanExtHeaderPacket::new_checked(b) {
            let _ = p.extension_header_id();
            let _ = p.length();
            let _ = p.next_header();
            let r = SixlowpanExtHeaderRepr::parse(&p);
            kani::cover!(r.is_ok() && p.length() == 4, "nhc extension header parsed");
        }
    }
    // payload() apart from the other accessors, so that a failure names it
    // @harness props=C07,C03:t cfg=KW tier=q to=300 mem=4 unwind=4 covers=1 funcs=SixlowpanExtHeaderPacket::new_checked;SixlowpanExtHeaderPacket::payload bounds=any_bytes_len_0..=16
    #[kani::proof]
    pub(crate) fn view_sixlowpan_ext_header_payload() {
        const N: usize = 16;
        let bytes: [u8; N] = kani::any();
        let len = any_le(N);
        let b = &bytes[..len];
        if let Ok(p) = SixlowpanExtHeaderPacket::new_checked(b) {
            let pl = p.payload();
            kani::cover!(pl.len() == 4, "nhc extension header: 4 payload bytes");
        }
    }

    // @harness props=C07,C03:t cfg=KW tier=q to=600 mem=4 unwind=10 covers=2 funcs=SixlowpanUdpNhcPacket::new_checked;SixlowpanUdpNhcPacket::src_port;SixlowpanUdpNhcPacket::dst_port;SixlowpanUdpNhcPacket::checksum;SixlowpanUdpNhcPacket::payload;SixlowpanUdpNhcRepr::parse bounds=any_bytes_len_0..=16
    #[kani::proof]
    pub(crate) fn view_sixlowpan_udp_nhc() {
        const N: usize = 16;
        let bytes: [u8; N] = kani::any();
        let len = any_le(N);
        let b = &bytes[..len];
        let src = any_ip6();
        let dst = any_ip6();
        if let Ok(p) = SixlowpanUdpNhcPacket::new_checked(b) {
            let _ = p.src_port();
            let _ = p.dst_port();
            let c = p.checksum();
            let pl = p.payload();
            let r = SixlowpanUdpNhcRepr::parse(&p, &src, &dst, &ChecksumCapabilities::ignored());
            let r2 = SixlowpanUdpNhcRepr::parse(&p, &src, &dst, &ChecksumCapabilities::default());
            kani::cover!(r.is_ok() && c.is_none() && pl.len() > 0, "udp nhc: elided checksum, payload");
            kani::cover!(r.is_ok() && r2.is_err(), "udp nhc: bad in-line checksum rejected");
        }
    }

    // ------------------------------------------------------------------ pretty-printers (real core::fmt)

    // @harness props=C07 cfg=KW tier=q to=600 mem=6 unwind=24 covers=1 funcs=PrettyPrinter::fmt;UdpPacket::pretty_print;UdpPacket::fmt bounds=any_bytes_len_0..=16
    #[kani::proof]
    pub(crate) fn pp_udp() {
        const N: usize = 16;
        let bytes: [u8; N] = kani::any();
        let len = any_le(N);
        let b = &bytes[..len];
        let ok = pp::<UdpPacket<&[u8]>>(b);
        kani::cover!(ok && UdpPacket::new_checked(b).is_ok(), "pp udp: printed a valid header");
    }

    // @harness props=C07 cfg=KW tier=t to=3600 mem=16 unwind=24 covers=1 funcs=PrettyPrinter::fmt;ArpPacket::pretty_print;ArpPacket::fmt;ArpRepr::fmt bounds=any_bytes_len_0..=28
    #[kani::proof]
    pub(crate) fn pp_arp() {
        const N: usize = 28;
        let bytes: [u8; N] = kani::any();
        let len = any_le(N);
        let b = &bytes[..len];
        let ok = pp::<ArpPacket<&[u8]>>(b);
        kani::cover!(ok && len == N && bytes[4] == 6 && bytes[5] == 4, "pp arp: printed an Ethernet/IPv4-sized packet");
    }

    // @harness props=C07 cfg=KW tier=q to=600 mem=6 unwind=24 covers=1 funcs=PrettyPrinter::fmt;IgmpPacket::pretty_print;IgmpPacket::fmt;IgmpRepr::fmt bounds=any_bytes_len_0..=12
    #[kani::proof]
    pub(crate) fn pp_igmp() {
        const N: usize = 12;
        let bytes: [u8; N] = kani::any();
        let len = any_le(N);
        let b = &bytes[..len];
        let ok = pp::<IgmpPacket<&[u8]>>(b);
        kani::cover!(ok && len >= 8 && bytes[0] == 0x11, "pp igmp: printed a membership query");
    }

    // (removed from the thorough tier: pp_tcp - out of memory at 16 GB in the thorough sweep; was: any_bytes_len_0..=32_(<=12_option_bytes))

    // (removed from the thorough tier: pp_ndisc_option - out of memory at 16 GB in the thorough sweep; was: any_bytes_len_0..=40)

    // Nested printers.  The ICMPv4 -> IPv4 -> ICMPv4 ... recursion is bounded by the data (>= 28 bytes
    // per round) but symbolic execution follows it to the unwind bound, which the formatting loops of
    // core::fmt force to >= 10: the byte bounds are kept small.
    // (removed from the thorough tier: pp_icmpv4 - out of memory at 12 GB in the thorough sweep; was: any_bytes_len_0..=36)

    // (removed from the thorough tier: pp_ipv4 - out of memory at 12 GB in the thorough sweep; was: any_bytes_len_0..=40)

    // (removed from the thorough tier: pp_ipv6 - out of memory at 12 GB in the thorough sweep; was: any_bytes_len_0..=52)

    // (removed from the thorough tier: pp_ethernet - out of memory at 12 GB in the thorough sweep; was: any_bytes_len_0..=42)

    // ------------------------------------------------------------------ Display of checked views not reached by a PrettyPrint impl

    // @harness props=C07 cfg=KW tier=q to=900 mem=6 unwind=12 covers=2 funcs=Ipv4Packet::fmt;Ipv4Repr::fmt bounds=any_bytes_len_0..=24
    #[kani::proof]
    pub(crate) fn disp_ipv4() {
        const N: usize = 24;
        let bytes: [u8; N] = kani::any();
        let len = any_le(N);
        let b = &bytes[..len];
        if let Ok(p) = Ipv4Packet::new_checked(b) {
            let ok = write!(NoopSink, "{}", p).is_ok();
            kani::cover!(ok && p.version() == 4 && !p.more_frags() && p.frag_offset() == 0, "display ipv4: valid header");
            kani::cover!(ok && p.version() != 4 && p.more_frags() && p.dscp() != 0, "display ipv4: unparsable header printed field by field");
        }
    }

    // @harness props=C07 cfg=KW tier=t to=1800 mem=6 unwind=12 covers=1 funcs=Ipv6Packet::fmt;Ipv6Repr::fmt bounds=any_bytes_len_0..=44
    #[kani::proof]
    pub(crate) fn disp_ipv6() {
        const N: usize = 44;
        let bytes: [u8; N] = kani::any();
        let len = any_le(N);
        let b = &bytes[..len];
        if let Ok(p) = Ipv6Packet::new_checked(b) {
            let ok = write!(NoopSink, "{}", p).is_ok();
            kani::cover!(ok && p.version() == 6, "display ipv6: valid header");
        }
    }

    // @harness props=C07 cfg=KW tier=t to=1800 mem=6 unwind=20 covers=3 funcs=Ipv6FragmentHeader::fmt;Ipv6RoutingHeader::fmt;Ipv6Option::fmt;Ipv6OptionRepr::fmt;Ipv6RoutingRepr::fmt bounds=any_bytes_len_0..=24
    #[kani::proof]
    pub(crate) fn disp_ipv6_ext() {
        const N: usize = 24;
        let bytes: [u8; N] = kani::any();
        let len = any_le(N);
        let b = &bytes[..len];
        if let Ok(p) = Ipv6FragmentHeader::new_checked(b) {
            let ok = write!(NoopSink, "{}", p).is_ok();
            kani::cover!(ok, "display: fragment header");
        }
        if let Ok(p) = Ipv6RoutingHeader::new_checked(b) {
            let ok = write!(NoopSink, "{}", p).is_ok();
            kani::cover!(ok && p.routing_type() == Ipv6RoutingType::Type2, "display: type 2 routing header");
        }
        if let Ok(p) = Ipv6Option::new_checked(b) {
            let ok = write!(NoopSink, "{}", p).is_ok();
            kani::cover!(ok && p.option_type() == Ipv6OptionType::RouterAlert, "display: router alert option");
        }
    }

    // @harness props=C07 cfg=KW tier=t to=3600 mem=16 unwind=20 covers=1 funcs=NdiscOption::fmt;NdiscOptionRepr::fmt bounds=any_bytes_len_0..=40
    #[kani::proof]
    pub(crate) fn disp_ndisc_option() {
        const N: usize = 40;
        let bytes: [u8; N] = kani::any();
        let len = any_le(N);
        let b = &bytes[..len];
        if let Ok(p) = NdiscOption::new_checked(b) {
            let ok = write!(NoopSink, "{}", p).is_ok();
            kani::cover!(ok && p.option_type() == NdiscOptionType::Mtu, "display: MTU option");
        }
    }

    // @harness props=C07 cfg=KW tier=q to=900 mem=6 unwind=20 covers=1 funcs=Ieee802154Frame::fmt bounds=any_bytes_len_0..=28
    #[kani::proof]
    pub(crate) fn disp_ieee802154() {
        const N: usize = 28;
        let bytes: [u8; N] = kani::any();
        let len = any_le(N);
        let b = &bytes[..len];
        if let Ok(p) = Ieee802154Frame::new_checked(b) {
            let ok = write!(NoopSink, "{}", p).is_ok();
            kani::cover!(ok && matches!(p.dst_addr(), Some(Ieee802154Address::Extended(_))) && p.src_pan_id().is_some(), "display: frame with extended destination and source PAN");
        }
    }
}
