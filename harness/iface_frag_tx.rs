// C12 (egress half, and reassembly through `process_ipv4`): IPv4 fragmentation on transmit.
// Spliced into src/iface/interface/mod.rs: `Interface { inner, fragments, fragmenter }`, `dispatch_ip`,
// `dispatch_ipv4_frag`, `ipv4_egress`, `socket_egress`, `process_ipv4` are reachable.
//
// Oracles are written from RFC 791 on raw frame bytes (`hdr`), not with the crate's `Ipv4Packet` accessors.
#[allow(dead_code, unused_imports, unused_variables, unused_mut, unused_assignments)]
mod v_iface_frag_tx {
    use super::*;
    use crate::iface::SocketStorage;
    use crate::phy::Checksum;
    use crate::socket::raw as sraw;
    use crate::socket::udp as sudp;
    use crate::verif_common::*;
    use crate::verif_dev::{CapDev, CapTx, NullDev, TxState};

    const LOCAL: Ipv4Address = Ipv4Address::new(192, 168, 1, 1);
    const REMOTE: Ipv4Address = Ipv4Address::new(192, 168, 1, 2);
    const IPH: usize = 20;

    /// RFC 791 header fields read from raw bytes (needs >= 20 bytes)
    #[derive(Clone, Copy)]
    struct H {
        vihl: u8,
        total: usize,
        ident: u16,
        rsv: bool,
        df: bool,
        mf: bool,
        off: usize,
        ttl: u8,
        proto: u8,
        src: [u8; 4],
        dst: [u8; 4],
        cksum_ok: bool,
    }

    fn hdr(b: &[u8]) -> H {
        let w = |i: usize| ((b[i] as u32) << 8) | b[i + 1] as u32;
        let fl = w(6);
        let mut sum = w(0) + w(2) + w(4) + w(6) + w(8) + w(10) + w(12) + w(14) + w(16) + w(18);
        sum = (sum & 0xffff) + (sum >> 16);
        sum = (sum & 0xffff) + (sum >> 16);
        H {
            vihl: b[0],
            total: w(2) as usize,
            ident: w(4) as u16,
            rsv: fl & 0x8000 != 0,
            df: fl & 0x4000 != 0,
            mf: fl & 0x2000 != 0,
            off: ((fl & 0x1fff) as usize) * 8,
            ttl: b[8],
            proto: b[9],
            src: [b[12], b[13], b[14], b[15]],
            dst: [b[16], b[17], b[18], b[19]],
            cksum_ok: sum == 0xffff,
        }
    }

    macro_rules! ip_iface {
        ($dev:ident, $iface:ident, $mtu:expr, $cks:expr) => {
            let mut $dev = NullDev { medium: Medium::Ip, mtu: $mtu, checksum: $cks };
            let mut $iface = Interface::new(Config::new(HardwareAddress::Ip), &mut $dev, Instant::from_millis(0));
            $iface.update_ip_addrs(|a| {
                a.push(IpCidr::new(IpAddress::Ipv4(LOCAL), 24)).unwrap();
            });
        };
    }

    /// one captured frame must be fragment number `idx` of the datagram: returns its payload length
    fn check_frag<const CAP: usize>(
        st: &TxState<CAP>,
        mtu: usize,
        want_off: usize,
        last: bool,
        ident: u16,
        ttl: u8,
        proto: u8,
        cks_on: bool,
    ) -> usize {
        assert!(st.frames == 1, "prop:c12_tx_one_frame_per_call");
        let len = st.len0;
        assert!(len <= mtu, "prop:c12_tx_fragment_fits_mtu");
        assert!(len > IPH, "prop:c12_tx_fragment_carries_data");
        let h = hdr(&st.buf0[..IPH]);
        assert!(h.vihl == 0x45, "prop:c12_tx_fragment_header_ihl5");
        assert!(h.total == len, "prop:c12_tx_fragment_total_len_is_frame_len");
        assert!(h.ident == ident, "prop:c12_tx_fragments_share_ident");
        assert!(!h.df && !h.rsv, "prop:c12_tx_fragment_df_clear");
        assert!(h.mf == !last, "prop:c12_tx_mf_on_all_but_last");
        assert!(h.off == want_off, "prop:c12_tx_offset_is_running_payload_sum");
        assert!(last || (len - IPH) % 8 == 0, "prop:c12_tx_non_last_payload_multiple_of_8");
        assert!(h.ttl == ttl && h.proto == proto, "prop:c12_tx_fragment_keeps_ttl_and_protocol");
        assert!(h.src == LOCAL.octets() && h.dst == REMOTE.octets(), "prop:c12_tx_fragment_keeps_addresses");
        if cks_on {
            assert!(h.cksum_ok, "prop:c12_tx_fragment_header_checksum");
        }
        len - IPH
    }

    /// MTU, application payload length, expected fragment count, capture size (>= MTU), reference size (>= datagram)
    fn frag_tx<const MTU: usize, const PLEN: usize, const NF: usize, const CAP: usize, const RC: usize>(
        cks: ChecksumCapabilities,
        raw: bool,
    ) {
        let cks_on = cks.ipv4.tx();
        ip_iface!(dev, iface, MTU, cks.clone());
        ip_iface!(rdev, riface, 1500, cks.clone());
        let payload: [u8; PLEN] = kani::any();
        let udp = UdpRepr { src_port: kani::any(), dst_port: kani::any() };
        let ttl: u8 = kani::any();
        let (proto, iplen) = if raw { (IpProtocol::Unknown(253), PLEN) } else { (IpProtocol::Udp, 8 + PLEN) };
        let ip = Ipv4Repr { src_addr: LOCAL, dst_addr: REMOTE, next_header: proto, payload_len: iplen, hop_limit: ttl };
        let protob: u8 = if raw { 253 } else { 17 };
        // largest 8-aligned payload that fits the MTU behind a 20-byte header (RFC 791)
        let maxp = ((MTU - IPH) / 8) * 8;
        assert!(iplen + IPH > MTU && NF == (iplen + maxp - 1) / maxp && NF >= 2 && NF <= 4);

        // reference: the same datagram on a link that needs no fragmentation
        let mut rs = TxState::<RC>::new();
        {
            let pkt = Packet::new_ipv4(ip, if raw { IpPayload::Raw(&payload[..]) } else { IpPayload::Udp(udp, &payload[..]) });
            let r = riface.inner.dispatch_ip(CapTx { st: &mut rs }, PacketMeta::default(), pkt, &mut riface.fragmenter);
            assert!(r.is_ok() && rs.frames == 1 && rs.len0 == IPH + iplen, "prop:c12_tx_reference_emission");
        }

        let mut s0 = TxState::<CAP>::new();
        let mut s1 = TxState::<CAP>::new();
        let mut s2 = TxState::<CAP>::new();
        let mut s3 = TxState::<CAP>::new();
        {
            let pkt = Packet::new_ipv4(ip, if raw { IpPayload::Raw(&payload[..]) } else { IpPayload::Udp(udp, &payload[..]) });
            let r = iface.inner.dispatch_ip(CapTx { st: &mut s0 }, PacketMeta::default(), pkt, &mut iface.fragmenter);
            assert!(r.is_ok(), "prop:c12_tx_first_fragment_dispatched");
        }
        assert!(s0.frames == 1 && s0.len0 >= IPH, "prop:c12_tx_one_frame_per_call");
        assert!(!iface.fragmenter.finished() && !iface.fragmenter.is_empty(), "prop:c12_tx_unfinished_while_fragments_remain");
        let ident = hdr(&s0.buf0[..IPH]).ident;
        let p0 = check_frag(&s0, MTU, 0, false, ident, ttl, protob, cks_on);

        iface.inner.dispatch_ipv4_frag(CapTx { st: &mut s1 }, &mut iface.fragmenter);
        assert!(iface.fragmenter.finished() == (NF == 2), "prop:c12_tx_finished_exactly_after_last_fragment");
        let p1 = check_frag(&s1, MTU, p0, NF == 2, ident, ttl, protob, cks_on);
        let mut p2 = 0;
        let mut p3 = 0;
        if NF >= 3 {
            iface.inner.dispatch_ipv4_frag(CapTx { st: &mut s2 }, &mut iface.fragmenter);
            assert!(iface.fragmenter.finished() == (NF == 3), "prop:c12_tx_finished_exactly_after_last_fragment");
            p2 = check_frag(&s2, MTU, p0 + p1, NF == 3, ident, ttl, protob, cks_on);
        }
        if NF >= 4 {
            iface.inner.dispatch_ipv4_frag(CapTx { st: &mut s3 }, &mut iface.fragmenter);
            assert!(iface.fragmenter.finished(), "prop:c12_tx_finished_exactly_after_last_fragment");
            p3 = check_frag(&s3, MTU, p0 + p1 + p2, true, ident, ttl, protob, cks_on);
        }
        assert!(p0 + p1 + p2 + p3 == iplen, "prop:c12_tx_fragments_carry_whole_datagram");

        // byte k of the datagram's payload, as carried by the fragment covering it
        let k = any_lt(iplen);
        let got = if k < p0 {
            s0.buf0[IPH + k]
        } else if k < p0 + p1 {
            s1.buf0[IPH + k - p0]
        } else if k < p0 + p1 + p2 {
            s2.buf0[IPH + k - p0 - p1]
        } else {
            s3.buf0[IPH + k - p0 - p1 - p2]
        };
        assert!(got == rs.buf0[IPH + k], "prop:c12_tx_concatenation_equals_unfragmented_emission");
        if raw {
            assert!(got == payload[k], "prop:c12_tx_payload_bytes_exact");
        } else if k >= 8 {
            assert!(got == payload[k - 8], "prop:c12_tx_payload_bytes_exact");
        } else {
            let uh = [(udp.src_port >> 8) as u8, udp.src_port as u8, (udp.dst_port >> 8) as u8, udp.dst_port as u8,
                      ((8 + PLEN) >> 8) as u8, (8 + PLEN) as u8];
            assert!(k >= 6 || got == uh[k], "prop:c12_tx_udp_header_exact");
        }
        // the reference header differs only in what fragmentation must change
        {
            let rh = hdr(&rs.buf0[..IPH]);
            assert!(rh.total == IPH + iplen && !rh.mf && rh.off == 0 && rh.ttl == ttl && rh.proto == protob, "prop:c12_tx_reference_emission");
        }
        // a further egress pass has nothing left to send
        crate::vdump!("p0={} p1={} p2={} p3={} ident={}", p0, p1, p2, p3, ident);
        kani::cover!(iface.fragmenter.finished() && s0.frames + s1.frames + s2.frames + s3.frames == NF, "all fragments emitted");
        kani::cover!(got != 0 && k + 1 == iplen && k >= p0, "last byte of the datagram carried by a later fragment");
    }

    // Grid: max fragment payload is 24 (MTU 44 and the unaligned MTUs 46, 50), 32 (MTU 52), 48 (MTU 68 and the
    // unaligned MTU 70), 80 (MTU 100).  The unaligned MTUs exercise the rounding in `max_ipv4_fragment_size` for the
    // first fragment (dispatch_ip) and for the later ones (dispatch_ipv4_frag): every non-final payload must be a
    // multiple of 8 and every offset field must equal the bytes sent so far.
    // IP payload = 8 (UDP header) + application bytes.  Fragment payload lengths are given in `bounds=`.

    // @harness props=C12,C10:t cfg=KI4 tier=q to=600 mem=6 unwind=12 opts=nomem covers=2 funcs=InterfaceInner::dispatch_ip;InterfaceInner::dispatch_ipv4_frag;DeviceCapabilities::max_ipv4_fragment_size;Fragmenter::finished bounds=MTU_44;_UDP_payload_17;_fragment_payloads_24+1;_symbolic_payload_ports_ttl;_Medium::Ip
    #[kani::proof]
    pub(crate) fn ipv4_frag_tx_44_17() {
        frag_tx::<44, 17, 2, 48, 48>(ChecksumCapabilities::ignored(), false);
    }

    // @harness props=C12,C10:t cfg=KI4 tier=q to=600 mem=6 unwind=12 opts=nomem covers=2 funcs=InterfaceInner::dispatch_ip;InterfaceInner::dispatch_ipv4_frag;DeviceCapabilities::max_ipv4_fragment_size;Fragmenter::finished bounds=MTU_44;_UDP_payload_40;_fragment_payloads_24+24;_symbolic_payload_ports_ttl;_Medium::Ip
    #[kani::proof]
    pub(crate) fn ipv4_frag_tx_44_40() {
        frag_tx::<44, 40, 2, 48, 72>(ChecksumCapabilities::ignored(), false);
    }

    // @harness props=C12,C10:t cfg=KI4 tier=q to=600 mem=6 unwind=12 opts=nomem covers=2 funcs=InterfaceInner::dispatch_ip;InterfaceInner::dispatch_ipv4_frag;DeviceCapabilities::max_ipv4_fragment_size;Fragmenter::finished bounds=MTU_44;_UDP_payload_41;_fragment_payloads_24+24+1;_symbolic_payload_ports_ttl;_Medium::Ip
    #[kani::proof]
    pub(crate) fn ipv4_frag_tx_44_41() {
        frag_tx::<44, 41, 3, 48, 72>(ChecksumCapabilities::ignored(), false);
    }

    // @harness props=C12,C10:t cfg=KI4 tier=q to=600 mem=6 unwind=12 opts=nomem covers=2 funcs=InterfaceInner::dispatch_ip;InterfaceInner::dispatch_ipv4_frag;DeviceCapabilities::max_ipv4_fragment_size;Fragmenter::finished bounds=MTU_44;_UDP_payload_63;_fragment_payloads_24+24+23;_symbolic_payload_ports_ttl;_Medium::Ip
    #[kani::proof]
    pub(crate) fn ipv4_frag_tx_44_63() {
        frag_tx::<44, 63, 3, 48, 96>(ChecksumCapabilities::ignored(), false);
    }

    // @harness props=C12,C10:t cfg=KI4 tier=q to=600 mem=6 unwind=12 opts=nomem covers=2 funcs=InterfaceInner::dispatch_ip;InterfaceInner::dispatch_ipv4_frag;DeviceCapabilities::max_ipv4_fragment_size;Fragmenter::finished bounds=MTU_44;_UDP_payload_88;_fragment_payloads_24+24+24+24;_symbolic_payload_ports_ttl;_Medium::Ip
    #[kani::proof]
    pub(crate) fn ipv4_frag_tx_44_88() {
        frag_tx::<44, 88, 4, 48, 120>(ChecksumCapabilities::ignored(), false);
    }

    // @harness props=C12,C10:t cfg=KI4 tier=q to=600 mem=6 unwind=12 opts=nomem covers=2 funcs=InterfaceInner::dispatch_ip;InterfaceInner::dispatch_ipv4_frag;DeviceCapabilities::max_ipv4_fragment_size;Fragmenter::finished bounds=MTU_52;_UDP_payload_60;_fragment_payloads_32+32+4;_symbolic_payload_ports_ttl;_Medium::Ip
    #[kani::proof]
    pub(crate) fn ipv4_frag_tx_52_60() {
        frag_tx::<52, 60, 3, 56, 88>(ChecksumCapabilities::ignored(), false);
    }

    // @harness props=C12,C10:t cfg=KI4 tier=q to=600 mem=6 unwind=12 opts=nomem covers=2 funcs=InterfaceInner::dispatch_ip;InterfaceInner::dispatch_ipv4_frag;DeviceCapabilities::max_ipv4_fragment_size;Fragmenter::finished bounds=MTU_68;_UDP_payload_89;_fragment_payloads_48+48+1;_symbolic_payload_ports_ttl;_Medium::Ip
    #[kani::proof]
    pub(crate) fn ipv4_frag_tx_68_89() {
        frag_tx::<68, 89, 3, 72, 120>(ChecksumCapabilities::ignored(), false);
    }

    // @harness props=C12,C10:t cfg=KI4 tier=q to=600 mem=6 unwind=12 opts=nomem covers=2 funcs=InterfaceInner::dispatch_ip;InterfaceInner::dispatch_ipv4_frag;DeviceCapabilities::max_ipv4_fragment_size;Fragmenter::finished bounds=MTU_68;_UDP_payload_136;_fragment_payloads_48+48+48;_symbolic_payload_ports_ttl;_Medium::Ip
    #[kani::proof]
    pub(crate) fn ipv4_frag_tx_68_136() {
        frag_tx::<68, 136, 3, 72, 168>(ChecksumCapabilities::ignored(), false);
    }

    // @harness props=C12,C10:t cfg=KI4 tier=q to=600 mem=6 unwind=12 opts=nomem covers=2 funcs=InterfaceInner::dispatch_ip;InterfaceInner::dispatch_ipv4_frag;DeviceCapabilities::max_ipv4_fragment_size;Fragmenter::finished bounds=MTU_70;_UDP_payload_100;_fragment_payloads_48+48+12_(MTU_not_8-aligned:_frames_<=_68);_symbolic_payload_ports_ttl;_Medium::Ip
    #[kani::proof]
    pub(crate) fn ipv4_frag_tx_70_100() {
        frag_tx::<70, 100, 3, 72, 128>(ChecksumCapabilities::ignored(), false);
    }

    // @harness props=C12,C10:t cfg=KI4 tier=q to=600 mem=6 unwind=12 opts=nomem covers=2 funcs=InterfaceInner::dispatch_ip;InterfaceInner::dispatch_ipv4_frag;DeviceCapabilities::max_ipv4_fragment_size;Fragmenter::finished bounds=MTU_46;_UDP_payload_41;_fragment_payloads_24+24+1_(MTU_not_8-aligned:_46-20=26_rounds_down_to_24,_frames_<=_44);_symbolic_payload_ports_ttl;_Medium::Ip
    #[kani::proof]
    pub(crate) fn ipv4_frag_tx_46_41() {
        frag_tx::<46, 41, 3, 56, 72>(ChecksumCapabilities::ignored(), false);
    }

    // @harness props=C12,C10:t cfg=KI4 tier=q to=600 mem=6 unwind=12 opts=nomem covers=2 funcs=InterfaceInner::dispatch_ip;InterfaceInner::dispatch_ipv4_frag;DeviceCapabilities::max_ipv4_fragment_size;Fragmenter::finished bounds=MTU_50;_UDP_payload_63;_fragment_payloads_24+24+23_(MTU_not_8-aligned:_50-20=30_rounds_down_to_24,_frames_<=_44);_symbolic_payload_ports_ttl;_Medium::Ip
    #[kani::proof]
    pub(crate) fn ipv4_frag_tx_50_63() {
        frag_tx::<50, 63, 3, 56, 96>(ChecksumCapabilities::ignored(), false);
    }

    // @harness props=C12,C10:t cfg=KI4 tier=q to=900 mem=6 unwind=12 opts=nomem covers=2 funcs=InterfaceInner::dispatch_ip;InterfaceInner::dispatch_ipv4_frag;DeviceCapabilities::max_ipv4_fragment_size;Fragmenter::finished bounds=MTU_100;_UDP_payload_228;_fragment_payloads_80+80+76_(datagram_fills_the_256-byte_fragmentation_buffer_exactly);_symbolic_payload_ports_ttl;_Medium::Ip
    #[kani::proof]
    pub(crate) fn ipv4_frag_tx_100_228() {
        frag_tx::<100, 228, 3, 104, 256>(ChecksumCapabilities::ignored(), false);
    }

    // @harness props=C12 cfg=KI4 tier=q to=600 mem=6 unwind=12 opts=nomem covers=2 funcs=InterfaceInner::dispatch_ip;InterfaceInner::dispatch_ipv4_frag;DeviceCapabilities::max_ipv4_fragment_size;Fragmenter::finished bounds=MTU_44;_raw_payload_49;_fragment_payloads_24+24+1;_raw_IP_payload_protocol_253;_symbolic_payload_ports_ttl;_Medium::Ip
    #[kani::proof]
    pub(crate) fn ipv4_frag_tx_raw_44_49() {
        frag_tx::<44, 49, 3, 48, 72>(ChecksumCapabilities::ignored(), true);
    }

    // @harness props=C12,C08,C10 cfg=KI4 tier=q to=900 mem=6 unwind=12 opts=nomem covers=2 funcs=InterfaceInner::dispatch_ip;InterfaceInner::dispatch_ipv4_frag;DeviceCapabilities::max_ipv4_fragment_size;Fragmenter::finished bounds=MTU_44;_UDP_payload_17;_fragment_payloads_24+1;_all_checksums_computed_and_the_IPv4_header_checksum_verified_per_fragment;_symbolic_payload_ports_ttl;_Medium::Ip
    #[kani::proof]
    pub(crate) fn ipv4_frag_tx_cksum_44_17() {
        frag_tx::<44, 17, 2, 48, 48>(ChecksumCapabilities::default(), false);
    }

    // ------------------------------------------------------------------ larger than the fragmentation buffer
    // @harness props=C12,C10:t cfg=KI4 tier=q to=600 mem=6 unwind=12 opts=nomem covers=1 funcs=InterfaceInner::dispatch_ip bounds=MTU_100;_UDP_payload_229_(datagram_one_byte_larger_than_the_256-byte_fragmentation_buffer)
    #[kani::proof]
    pub(crate) fn ipv4_frag_tx_too_big() {
        ip_iface!(dev, iface, 100, ChecksumCapabilities::ignored());
        let payload: [u8; 229] = kani::any();
        let udp = UdpRepr { src_port: kani::any(), dst_port: kani::any() };
        let ip = Ipv4Repr { src_addr: LOCAL, dst_addr: REMOTE, next_header: IpProtocol::Udp, payload_len: 8 + 229, hop_limit: 64 };
        let mut s0 = TxState::<104>::new();
        let pkt = Packet::new_ipv4(ip, IpPayload::Udp(udp, &payload[..]));
        let r = iface.inner.dispatch_ip(CapTx { st: &mut s0 }, PacketMeta::default(), pkt, &mut iface.fragmenter);
        // dropped as a whole: nothing on the wire, nothing left half-sent
        assert!(s0.frames == 0, "prop:c12_tx_oversize_never_truncated");
        assert!(iface.fragmenter.finished() && iface.fragmenter.is_empty(), "prop:c12_tx_oversize_leaves_fragmenter_idle");
        kani::cover!(r.is_ok(), "datagram beyond the fragmentation buffer dropped");
    }

    // ------------------------------------------------------------------ back-to-back datagrams
    // D1 = UDP 1000 -> 2000 with 41 symbolic bytes: IP payload 49 = fragments 24 + 24 + 1 at MTU 44.
    // D2 = UDP 1001 -> 2001 with 17 symbolic bytes: IP payload 25 = fragments 24 + 1.
    const D1L: usize = 41;
    const D2L: usize = 17;

    /// `b[..len]` is fragment `idx` (1 or 2, counted from 0) of D1, byte for byte
    fn is_d1_frag(b: &[u8], len: usize, idx: usize, ident: u16, d1: &[u8; D1L], k: usize) -> bool {
        let h = hdr(&b[..IPH]);
        let common = h.vihl == 0x45 && h.total == len && h.ident == ident && !h.df && h.proto == 17
            && h.src == LOCAL.octets() && h.dst == REMOTE.octets();
        if idx == 1 {
            // payload bytes 24..48 of the datagram = application bytes 16..40
            common && len == 44 && h.mf && h.off == 24 && b[IPH + (k % 24)] == d1[16 + (k % 24)]
        } else {
            common && len == 21 && !h.mf && h.off == 48 && b[IPH] == d1[40]
        }
    }

    /// `b[..len]` is fragment `idx` (0 or 1) of D2
    fn is_d2_frag(b: &[u8], len: usize, idx: usize, not_ident: u16, d2: &[u8; D2L], k: usize) -> bool {
        let h = hdr(&b[..IPH]);
        let common = h.vihl == 0x45 && h.total == len && h.ident != not_ident && !h.df && h.proto == 17
            && h.src == LOCAL.octets() && h.dst == REMOTE.octets();
        if idx == 0 {
            let j = k % 16;
            common && len == 44 && h.mf && h.off == 0 && b[IPH + 8 + j] == d2[j]
                && b[IPH] == (1001u16 >> 8) as u8 && b[IPH + 1] == 1001u16 as u8 && b[IPH + 5] == (8 + D2L) as u8
        } else {
            common && len == 21 && !h.mf && h.off == 24 && b[IPH] == d2[16]
        }
    }

    fn d1_packet<'a>(d1: &'a [u8; D1L]) -> Packet<'a> {
        let ip = Ipv4Repr { src_addr: LOCAL, dst_addr: REMOTE, next_header: IpProtocol::Udp, payload_len: 8 + D1L, hop_limit: 64 };
        Packet::new_ipv4(ip, IpPayload::Udp(UdpRepr { src_port: 1000, dst_port: 2000 }, &d1[..]))
    }

    fn dump_frame(tag: &str, frames: usize, which: usize, b: &[u8], len: usize) {
        if frames > which {
            let h = hdr(&b[..IPH]);
            crate::vdump!("{}: len={} ident={} mf={} off={} payload={:?}", tag, len, h.ident, h.mf, h.off, &b[IPH..len]);
        } else {
            crate::vdump!("{}: -", tag);
        }
    }

    // (a) a second oversized datagram handed to `dispatch_ip` while D1 is still being sent (this is what the
    // ingress reply path and `socket_egress` do)
    // @harness props=C12 cfg=KI4 tier=q to=900 mem=6 unwind=12 opts=nomem covers=2 funcs=InterfaceInner::dispatch_ip;InterfaceInner::dispatch_ipv4_frag bounds=MTU_44;_D1_=_UDP_41_bytes_(3_fragments);_D2_=_UDP_17_bytes_(2_fragments);_both_symbolic;_call_sequence_dispatch_ip(D1),dispatch_ip(D2),dispatch_ipv4_frag,dispatch_ipv4_frag
    #[kani::proof]
    pub(crate) fn ipv4_frag_busy_dispatch() {
        ip_iface!(dev, iface, 44, ChecksumCapabilities::ignored());
        let d1: [u8; D1L] = kani::any();
        let d2: [u8; D2L] = kani::any();
        let mut s0 = TxState::<48>::new();
        let mut s1 = TxState::<48>::new();
        let mut s2 = TxState::<48>::new();
        let mut s3 = TxState::<48>::new();
        let r1 = iface.inner.dispatch_ip(CapTx { st: &mut s0 }, PacketMeta::default(), d1_packet(&d1), &mut iface.fragmenter);
        assert!(r1.is_ok() && s0.frames == 1 && s0.len0 == 44, "prop:c12_tx_first_fragment_dispatched");
        assert!(!iface.fragmenter.finished(), "prop:c12_tx_unfinished_while_fragments_remain");
        let id1 = hdr(&s0.buf0[..IPH]).ident;
        // the second datagram arrives now
        let ip2 = Ipv4Repr { src_addr: LOCAL, dst_addr: REMOTE, next_header: IpProtocol::Udp, payload_len: 8 + D2L, hop_limit: 64 };
        let p2 = Packet::new_ipv4(ip2, IpPayload::Udp(UdpRepr { src_port: 1001, dst_port: 2001 }, &d2[..]));
        let r2 = iface.inner.dispatch_ip(CapTx { st: &mut s1 }, PacketMeta::default(), p2, &mut iface.fragmenter);
        // the egress passes that follow
        iface.inner.dispatch_ipv4_frag(CapTx { st: &mut s2 }, &mut iface.fragmenter);
        let fin_after_one = iface.fragmenter.finished();
        if !fin_after_one {
            iface.inner.dispatch_ipv4_frag(CapTx { st: &mut s3 }, &mut iface.fragmenter);
        }
        dump_frame("dispatch_ip(D1)        ", s0.frames, 0, &s0.buf0, s0.len0);
        dump_frame("dispatch_ip(D2)        ", s1.frames, 0, &s1.buf0, s1.len0);
        dump_frame("dispatch_ipv4_frag #1  ", s2.frames, 0, &s2.buf0, s2.len0);
        dump_frame("dispatch_ipv4_frag #2  ", s3.frames, 0, &s3.buf0, s3.len0);
        crate::vdump!("d1={:?}", d1);
        crate::vdump!("d2={:?} r2={:?}", d2, r2);
        let k = any_lt(24);
        // D1 continues exactly where it was: second and third fragment, D1's ident, D1's bytes
        assert!(s2.frames == 1 && is_d1_frag(&s2.buf0, s2.len0, 1, id1, &d1, k), "prop:c12_busy_next_fragment_is_first_datagrams_second");
        assert!(s3.frames == 1 && is_d1_frag(&s3.buf0, s3.len0, 2, id1, &d1, k), "prop:c12_busy_first_datagram_transmitted_completely");
        // D2 was refused, deferred or dropped as a whole: none of it went out while D1 owned the fragmenter
        assert!(s1.frames == 0, "prop:c12_busy_second_datagram_not_started_into_busy_fragmenter");
        kani::cover!(s2.frames == 1 && s3.frames == 1, "two further fragments emitted after the second dispatch");
        kani::cover!(r2.is_ok(), "second dispatch returned Ok");
    }

    // (b) the same through the public egress path: a UDP socket holds the oversized D2 while D1 (first fragment
    // already sent by `dispatch_ip`, as an ingress-triggered reply or an earlier socket of the pass does) still
    // has two fragments to go; three `poll_egress` passes on devices that accept every frame.
    // @harness props=C12 cfg=KI4 tier=q to=900 mem=8 unwind=12 opts=nomem covers=2 funcs=Interface::poll_egress;Interface::ipv4_egress;Interface::socket_egress;udp::Socket::dispatch;InterfaceInner::dispatch_ip;InterfaceInner::dispatch_ipv4_frag bounds=MTU_44;_D1_=_UDP_41_bytes_(3_fragments,_first_sent_by_dispatch_ip);_D2_=_UDP_17_bytes_(2_fragments)_queued_in_one_UDP_socket;_3_poll_egress_passes;_device_always_accepts
    #[kani::proof]
    pub(crate) fn ipv4_frag_busy_socket() {
        let mut da = CapDev::<48>::new(Medium::Ip, 44, ChecksumCapabilities::ignored());
        let mut db = CapDev::<48>::new(Medium::Ip, 44, ChecksumCapabilities::ignored());
        let mut dc = CapDev::<48>::new(Medium::Ip, 44, ChecksumCapabilities::ignored());
        let mut iface = Interface::new(Config::new(HardwareAddress::Ip), &mut da, Instant::from_millis(0));
        iface.update_ip_addrs(|a| {
            a.push(IpCidr::new(IpAddress::Ipv4(LOCAL), 24)).unwrap();
        });
        let d1: [u8; D1L] = kani::any();
        let d2: [u8; D2L] = kani::any();
        let mut rxm = [sudp::PacketMetadata::EMPTY; 1];
        let mut rxp = [0u8; 8];
        let mut txm = [sudp::PacketMetadata::EMPTY; 1];
        let mut txp = [0u8; 24];
        let mut sock = sudp::Socket::new(
            sudp::PacketBuffer::new(&mut rxm[..], &mut rxp[..]),
            sudp::PacketBuffer::new(&mut txm[..], &mut txp[..]),
        );
        sock.bind(1001).unwrap();
        sock.send_slice(&d2[..], IpEndpoint::new(IpAddress::Ipv4(REMOTE), 2001)).unwrap();
        let mut storage = [SocketStorage::EMPTY; 1];
        let mut sockets = SocketSet::new(&mut storage[..]);
        let h = sockets.add(sock);

        let mut s0 = TxState::<48>::new();
        let r1 = iface.inner.dispatch_ip(CapTx { st: &mut s0 }, PacketMeta::default(), d1_packet(&d1), &mut iface.fragmenter);
        assert!(r1.is_ok() && s0.frames == 1 && s0.len0 == 44, "prop:c12_tx_first_fragment_dispatched");
        let id1 = hdr(&s0.buf0[..IPH]).ident;
        let now = Instant::from_millis(0);
        iface.poll_egress(now, &mut da, &mut sockets);
        let q1 = sockets.get::<sudp::Socket>(h).send_queue();
        iface.poll_egress(now, &mut db, &mut sockets);
        let q2 = sockets.get::<sudp::Socket>(h).send_queue();
        iface.poll_egress(now, &mut dc, &mut sockets);
        let q3 = sockets.get::<sudp::Socket>(h).send_queue();

        dump_frame("dispatch_ip(D1)      ", s0.frames, 0, &s0.buf0, s0.len0);
        dump_frame("poll_egress #1 frame0", da.tx.frames, 0, &da.tx.buf0, da.tx.len0);
        dump_frame("poll_egress #1 frame1", da.tx.frames, 1, &da.tx.buf1, da.tx.len1);
        dump_frame("poll_egress #2 frame0", db.tx.frames, 0, &db.tx.buf0, db.tx.len0);
        dump_frame("poll_egress #2 frame1", db.tx.frames, 1, &db.tx.buf1, db.tx.len1);
        dump_frame("poll_egress #3 frame0", dc.tx.frames, 0, &dc.tx.buf0, dc.tx.len0);
        dump_frame("poll_egress #3 frame1", dc.tx.frames, 1, &dc.tx.buf1, dc.tx.len1);
        crate::vdump!("socket send queue after each pass: {} {} {}; frames per pass {} {} {}", q1, q2, q3, da.tx.frames, db.tx.frames, dc.tx.frames);
        crate::vdump!("d1={:?}", d1);
        crate::vdump!("d2={:?}", d2);
        // capture limit of the devices (two frames per pass): a different schedule would need a wider harness
        assert!(da.tx.frames <= 2 && db.tx.frames <= 2 && dc.tx.frames <= 2, "inv:at_most_two_frames_per_pass_captured");
        let k = any_lt(24);
        // the fragmenter goes first in every pass: the first frame after D1's first fragment is D1's second
        assert!(da.tx.frames >= 1 && is_d1_frag(&da.tx.buf0, da.tx.len0, 1, id1, &d1, k), "prop:c12_busy_next_fragment_is_first_datagrams_second");
        // D1's third (last) fragment is transmitted, unmodified, in one of the passes
        let d1_done = (da.tx.frames >= 2 && is_d1_frag(&da.tx.buf1, da.tx.len1, 2, id1, &d1, k))
            || (db.tx.frames >= 1 && is_d1_frag(&db.tx.buf0, db.tx.len0, 2, id1, &d1, k))
            || (db.tx.frames >= 2 && is_d1_frag(&db.tx.buf1, db.tx.len1, 2, id1, &d1, k))
            || (dc.tx.frames >= 1 && is_d1_frag(&dc.tx.buf0, dc.tx.len0, 2, id1, &d1, k));
        assert!(d1_done, "prop:c12_busy_first_datagram_transmitted_completely");
        // D2 is still queued in its socket, or both of its fragments went out
        let d2_first = (da.tx.frames >= 2 && is_d2_frag(&da.tx.buf1, da.tx.len1, 0, id1, &d2, k))
            || (db.tx.frames >= 1 && is_d2_frag(&db.tx.buf0, db.tx.len0, 0, id1, &d2, k))
            || (db.tx.frames >= 2 && is_d2_frag(&db.tx.buf1, db.tx.len1, 0, id1, &d2, k))
            || (dc.tx.frames >= 1 && is_d2_frag(&dc.tx.buf0, dc.tx.len0, 0, id1, &d2, k))
            || (dc.tx.frames >= 2 && is_d2_frag(&dc.tx.buf1, dc.tx.len1, 0, id1, &d2, k));
        let d2_second = (db.tx.frames >= 1 && is_d2_frag(&db.tx.buf0, db.tx.len0, 1, id1, &d2, k))
            || (db.tx.frames >= 2 && is_d2_frag(&db.tx.buf1, db.tx.len1, 1, id1, &d2, k))
            || (dc.tx.frames >= 1 && is_d2_frag(&dc.tx.buf0, dc.tx.len0, 1, id1, &d2, k))
            || (dc.tx.frames >= 2 && is_d2_frag(&dc.tx.buf1, dc.tx.len1, 1, id1, &d2, k));
        if q3 == 0 {
            // (a pass that started D2 last leaves its second fragment to the next pass: not a loss)
            assert!(d2_first && (d2_second || !iface.fragmenter.finished()), "prop:c12_busy_second_datagram_deferred_or_transmitted_completely");
        } else {
            assert!(q3 == D2L && !d2_first && !d2_second, "prop:c12_busy_second_datagram_deferred_or_transmitted_completely");
        }
        kani::cover!(da.tx.frames + db.tx.frames + dc.tx.frames >= 3, "three or more frames in three passes");
        kani::cover!(q3 == 0, "socket queue drained");
    }

    // ------------------------------------------------------------------ reassembly through the real ingress path
    // Ghost datagram: protocol 253, 24 symbolic payload bytes, fragments [0,8) [8,16) [16,24), any ident; the frame of
    // each step is an RFC 791 byte template written here.  (A harness with 4 symbolic picks through `process_ip`
    // ran out of memory at 8 GB, also with 64-byte reassembly buffers and a fixed ident: the any-order argument is carried by the
    // 1-induction harnesses ipv4_reasm_step_* in iface_frag.rs; here are fixed orders and one arbitrary fragment.)
    const GL: usize = 24;

    fn frag_frame(ident: u16, pick: u8, g: &[u8; GL]) -> [u8; 28] {
        let off = pick as usize * 8;
        let mut f = [0u8; 28];
        f[0] = 0x45;
        f[3] = 28;
        f[4] = (ident >> 8) as u8;
        f[5] = ident as u8;
        f[6] = if pick != 2 { 0x20 } else { 0 };
        f[7] = pick;
        f[8] = 64;
        f[9] = 253;
        f[12..16].copy_from_slice(&REMOTE.octets());
        f[16..20].copy_from_slice(&LOCAL.octets());
        f[20] = g[off];
        f[21] = g[off + 1];
        f[22] = g[off + 2];
        f[23] = g[off + 3];
        f[24] = g[off + 4];
        f[25] = g[off + 5];
        f[26] = g[off + 6];
        f[27] = g[off + 7];
        f
    }

    fn runs3(m: u8) -> usize {
        // maximal runs of present 8-byte blocks = data ranges the assembler must track
        (m & 1 != 0) as usize + ((m & 2 != 0) && (m & 1 == 0)) as usize + ((m & 4 != 0) && (m & 2 == 0)) as usize
    }

    macro_rules! raw_receiver {
        ($sockets:ident, $h:ident) => {
            let mut rxm = [sraw::PacketMetadata::EMPTY; 2];
            let mut rxp = [0u8; 48];
            let mut txm = [sraw::PacketMetadata::EMPTY; 1];
            let mut txp = [0u8; 1];
            let sock = sraw::Socket::new(
                Some(IpVersion::Ipv4),
                Some(IpProtocol::Unknown(253)),
                sraw::PacketBuffer::new(&mut rxm[..], &mut rxp[..]),
                sraw::PacketBuffer::new(&mut txm[..], &mut txp[..]),
            );
            let mut storage = [SocketStorage::EMPTY; 1];
            let mut $sockets = SocketSet::new(&mut storage[..]);
            let $h = $sockets.add(sock);
        };
    }

    /// the three fragments in a fixed arrival order (`order[..n]`, concrete), symbolic ident and bytes: end-to-end
    /// witness that `process_ipv4` feeds header-derived offsets and lengths to the assembler correctly (every
    /// order, duplication and overlap is the business of ipv4_reasm_step_* in iface_frag.rs)
    fn process_fixed(order: [u8; 4], n: usize) {
        ip_iface!(dev, iface, 1500, ChecksumCapabilities::ignored());
        let g: [u8; GL] = kani::any();
        // (concrete ident: a symbolic one makes the slot pointer returned by `get` symbolic and the harness ran out of memory)
        let ident: u16 = 0x1234;
        raw_receiver!(sockets, h);
        let mut mask = 0u8;
        let mut delivered = 0usize;
        let mut ooo = false;
        let mut dup = false;
        macro_rules! step {
            ($i:expr) => {{
                if n > $i {
                    let pick: u8 = order[$i];
                    let bit = 1u8 << pick;
                    dup = dup || mask & bit != 0;
                    ooo = ooo || mask & (bit - 1) != bit - 1;
                    mask |= bit;
                    {
                        let f = frag_frame(ident, pick, &g);
                        let reply_none = iface.inner.process_ip(&mut sockets, PacketMeta::default(), &f[..], &mut iface.fragments).is_none();
                        assert!(reply_none, "prop:c12_reasm_fragment_causes_no_reply");
                    }
                    match sockets.get_mut::<sraw::Socket>(h).recv() {
                        Ok(b) => {
                            assert!(mask == 7, "prop:c12_reasm_delivers_only_when_every_byte_present");
                            assert!(b.len() == IPH + GL, "prop:c12_reasm_delivered_length_exact");
                            let hh = hdr(&b[..IPH]);
                            assert!(hh.total == IPH + GL && !hh.mf && hh.off == 0 && hh.proto == 253 && hh.src == REMOTE.octets() && hh.dst == LOCAL.octets(),
                                    "prop:c12_reasm_delivered_header_describes_whole_datagram");
                            let k = any_lt(GL);
                            assert!(b[IPH + k] == g[k], "prop:c12_reasm_delivered_bytes_equal_datagram");
                            mask = 0;
                            delivered += 1;
                        }
                        Err(_) => {
                            assert!(mask != 7, "prop:c12_reasm_delivers_when_gaps_trackable");
                        }
                    }
                }
            }};
        }
        step!(0);
        step!(1);
        step!(2);
        step!(3);
        kani::cover!(delivered == 1 && (ooo || dup), "datagram delivered after out-of-order or duplicated arrival");
    }

    // @harness props=C12 cfg=KI4 tier=q to=600 mem=6 unwind=12 opts=nomem covers=1 funcs=InterfaceInner::process_ip;InterfaceInner::process_ipv4;PacketAssemblerSet::get;PacketAssembler::set_total_size;PacketAssembler::add;PacketAssembler::assemble;raw::Socket::process bounds=datagram_of_24_payload_bytes_in_3_fragments_of_8;_arrival_order_last,first,middle;_symbolic_bytes,_fixed_ident;_raw_socket_as_receiver
    #[kani::proof]
    pub(crate) fn ipv4_reasm_process_201() {
        process_fixed([2, 0, 1, 0], 3);
    }

    // @harness props=C12 cfg=KI4 tier=q to=600 mem=6 unwind=12 opts=nomem covers=1 funcs=InterfaceInner::process_ip;InterfaceInner::process_ipv4;PacketAssemblerSet::get;PacketAssembler::set_total_size;PacketAssembler::add;PacketAssembler::assemble;raw::Socket::process bounds=datagram_of_24_payload_bytes_in_3_fragments_of_8;_arrival_order_middle,middle,last,first_(duplicate);_symbolic_bytes,_fixed_ident;_raw_socket_as_receiver
    #[kani::proof]
    pub(crate) fn ipv4_reasm_process_1120() {
        process_fixed([1, 1, 2, 0], 4);
    }

    // One fragment into an empty reassembly set, header fields at boundary values: what `process_ipv4` stores is
    // what the header says (offset, length; total size only from a fragment with MF clear), observed by completing
    // the datagram around it through the crate-internal PacketAssembler API; fragments reaching beyond the
    // reassembly buffer are dropped without panic and leave nothing behind.  (All offsets and lengths at the
    // PacketAssembler level: ipv4_reasm_bounds in iface_frag.rs; a harness with a symbolic offset through
    // `process_ip` ran out of memory.)
    fn process_one(off8: u16, mf: bool) {
        ip_iface!(dev, iface, 1500, ChecksumCapabilities::ignored());
        raw_receiver!(sockets, h);
        let data: [u8; 8] = kani::any();
        let ident: u16 = 0x1234;
        let off = off8 as usize * 8;
        let mut f = [0u8; 28];
        f[0] = 0x45;
        f[3] = 28;
        f[4] = (ident >> 8) as u8;
        f[5] = ident as u8;
        f[6] = (off8 >> 8) as u8 | if mf { 0x20 } else { 0 };
        f[7] = off8 as u8;
        f[8] = 64;
        f[9] = 253;
        f[12..16].copy_from_slice(&REMOTE.octets());
        f[16..20].copy_from_slice(&LOCAL.octets());
        f[20..28].copy_from_slice(&data);
        let reply_none = iface.inner.process_ip(&mut sockets, PacketMeta::default(), &f[..], &mut iface.fragments).is_none();
        assert!(reply_none, "prop:c12_reasm_fragment_causes_no_reply");
        assert!(sockets.get_mut::<sraw::Socket>(h).recv().is_err(), "prop:c12_reasm_delivers_only_when_every_byte_present");
        const BSZ: usize = crate::config::REASSEMBLY_BUFFER_SIZE;
        let fits = off + 8 <= BSZ;
        let key = FragKey::Ipv4(Ipv4Packet::new_unchecked(&f[..]).get_key());
        // the slot of this datagram exists since the fragment arrived (its expiry is one reassembly timeout after that,
        // not the instant offered now)
        let slot = iface.fragments.assembler.get(&key, Instant::from_millis(123_456));
        assert!(slot.is_ok(), "prop:c12_reasm_first_fragment_takes_one_slot");
        let slot = slot.unwrap();
        assert!(slot.expires_at() == Instant::from_millis(60_000), "prop:c12_reasm_slot_expires_one_timeout_after_first_fragment");
        assert!(!slot.is_complete(), "prop:c12_reasm_delivers_only_when_every_byte_present");
        let filler = [0xa5u8; BSZ];
        let k = any_lt(8);
        if fits {
            // everything in front of it arrives, and (if it was not the last) one byte behind it as the last fragment
            if off > 0 {
                slot.add(&filler[..off], 0).unwrap();
            }
            let total = if mf {
                assert!(slot.set_total_size(off + 9).is_ok(), "prop:c12_reasm_total_size_only_from_last_fragment");
                slot.add(&filler[..1], off + 8).unwrap();
                off + 9
            } else {
                off + 8
            };
            let p = slot.assemble();
            assert!(p.is_some(), "prop:c12_reasm_fragment_recorded_at_header_offset");
            let p = p.unwrap();
            assert!(p.len() == total, "prop:c12_reasm_total_size_only_from_last_fragment");
            assert!(p[off + k] == data[k], "prop:c12_reasm_fragment_stored_at_its_offset");
        } else {
            // nothing of it was recorded, no length was learnt: an 8-byte datagram completes on its own
            assert!(slot.set_total_size(8).is_ok(), "prop:c12_reasm_fragment_beyond_buffer_rejected");
            slot.add(&filler[..8], 0).unwrap();
            let p = slot.assemble();
            assert!(p.map(|p| p.len()) == Some(8), "prop:c12_reasm_fragment_beyond_buffer_rejected");
        }
        kani::cover!(fits == (off + 8 <= 256), "fragment processed");
    }

    // @harness props=C12 cfg=KI4 tier=q to=600 mem=6 unwind=12 opts=nomem covers=1 funcs=InterfaceInner::process_ip;InterfaceInner::process_ipv4;Ipv4Packet::frag_offset;Ipv4Packet::more_frags;Ipv4Packet::get_key;PacketAssemblerSet::get;PacketAssembler::set_total_size;PacketAssembler::add bounds=one_fragment_of_8_symbolic_bytes_into_an_empty_reassembly_set;_offset_0_MF_set_(first_fragment)
    #[kani::proof]
    pub(crate) fn ipv4_reasm_process_one_first() {
        process_one(0, true);
    }

    // @harness props=C12 cfg=KI4 tier=q to=600 mem=6 unwind=12 opts=nomem covers=1 funcs=InterfaceInner::process_ip;InterfaceInner::process_ipv4;Ipv4Packet::frag_offset;Ipv4Packet::more_frags;Ipv4Packet::get_key;PacketAssemblerSet::get;PacketAssembler::set_total_size;PacketAssembler::add bounds=one_fragment_of_8_symbolic_bytes_into_an_empty_reassembly_set;_offset_248_MF_clear_(ends_exactly_at_the_256-byte_buffer_end)
    #[kani::proof]
    pub(crate) fn ipv4_reasm_process_one_end() {
        process_one(31, false);
    }

    // @harness props=C12,C03 cfg=KI4 tier=q to=600 mem=6 unwind=12 opts=nomem covers=1 funcs=InterfaceInner::process_ip;InterfaceInner::process_ipv4;Ipv4Packet::frag_offset;Ipv4Packet::more_frags;Ipv4Packet::get_key;PacketAssemblerSet::get;PacketAssembler::set_total_size;PacketAssembler::add bounds=one_fragment_of_8_symbolic_bytes_into_an_empty_reassembly_set;_offset_256_MF_clear_(one_block_beyond_the_buffer)
    #[kani::proof]
    pub(crate) fn ipv4_reasm_process_one_beyond() {
        process_one(32, false);
    }

    // @harness props=C12,C03 cfg=KI4 tier=q to=600 mem=6 unwind=12 opts=nomem covers=1 funcs=InterfaceInner::process_ip;InterfaceInner::process_ipv4;Ipv4Packet::frag_offset;Ipv4Packet::more_frags;Ipv4Packet::get_key;PacketAssemblerSet::get;PacketAssembler::set_total_size;PacketAssembler::add bounds=one_fragment_of_8_symbolic_bytes_into_an_empty_reassembly_set;_offset_65528_MF_set_(largest_offset)
    #[kani::proof]
    pub(crate) fn ipv4_reasm_process_one_far() {
        process_one(8191, true);
    }

    // @harness props=C12 kind=mustfail cfg=KI4 tier=q to=600 mem=6 unwind=12 opts=nomem
    #[kani::proof]
    pub(crate) fn ipv4_frag_tx_must_fail() {
        ip_iface!(dev, iface, 44, ChecksumCapabilities::ignored());
        let payload: [u8; 17] = kani::any();
        let udp = UdpRepr { src_port: 1, dst_port: 2 };
        let ip = Ipv4Repr { src_addr: LOCAL, dst_addr: REMOTE, next_header: IpProtocol::Udp, payload_len: 25, hop_limit: 64 };
        let mut s0 = TxState::<48>::new();
        let pkt = Packet::new_ipv4(ip, IpPayload::Udp(udp, &payload[..]));
        let _ = iface.inner.dispatch_ip(CapTx { st: &mut s0 }, PacketMeta::default(), pkt, &mut iface.fragmenter);
        assert!(iface.fragmenter.finished(), "prop:deliberately_false_first_fragment_finishes_datagram");
    }
}
