// C12 (egress half, and reassembly through `process_ipv4`): IPv4 fragmentation on transmit.
// Spliced into src/iface/interface/mod.rs: `Interface { inner, fragments, fragmenter }`, `dispatch_ip`,
// `dispatch_ipv4_frag`, `ipv4_egress`, `socket_egress`, `process_ipv4` are reachable.
//
// Oracles are written from RFC 791 on raw frame bytes (`hdr`), not with the crate's `Ipv4Packet` accessors.
#[allow(dead_code, unused_imports, unused_variables, unused_mut, unused_assignments)]
mod v_iface_frag_tx {
    use super::*;
    use crate::iface::SocketStorage;
    use crate::phy::Checksum;
    use crate::verif_common::*;
    use crate::verif_dev::{CapDev, CapTx, NullDev, TxState};

    const LOCAL: Ipv4Address = Ipv4Address::new(192, 168, 1, 1);
    const REMOTE: Ipv4Address = Ipv4Address::new(192, 168, 1, 2);
    const IPH: usize = 20;

    /// RFC 791 header fields read from raw bytes (needs >= 20 bytes)
    #[derive(Clone, Copy)]
    struct H {
        vihl: u8,
        total: usize,
        ident: u16,
        rsv: bool,
        df: bool,
        mf: bool,
        off: usize,
        ttl: u8,
        proto: u8,
        src: [u8; 4],
        dst: [u8; 4],
        cksum_ok: bool,
    }

    fn hdr(b: &[u8]) -> H {
        let w = |i: usize| ((b[i] as u32) << 8) | b[i + 1] as u32;
        let fl = w(6);
        let mut sum = w(0) + w(2) + w(4) + w(6) + w(8) + w(10) + w(12) + w(14) + w(16) + w(18);
        sum = (sum & 0xffff) + (sum >> 16);
        sum = (sum & 0xffff) + (sum >> 16);
        H {
            vihl: b[0],
            total: w(2) as usize,
            ident: w(4) as u16,
            rsv: fl & 0x8000 != 0,
            df: fl & 0x4000 != 0,
            mf: fl & 0x2000 != 0,
            off: ((fl & 0x1fff) as usize) * 8,
            ttl: b[8],
            proto: b[9],
            src: [b[12], b[13], b[14], b[15]],
            dst: [b[16], b[17], b[18], b[19]],
            cksum_ok: sum == 0xffff,
        }
    }

    macro_rules! ip_iface {
        ($dev:ident, $iface:ident, $mtu:expr, $cks:expr) => {
            let mut $dev = NullDev { medium: Medium::Ip, mtu: $mtu, checksum: $cks };
            let mut $iface = Interface::new(Config::new(HardwareAddress::Ip), &mut $dev, Instant::from_millis(0));
            $iface.update_ip_addrs(|a| {
                a.push(IpCidr::new(IpAddress::Ipv4(LOCAL), 24)).unwrap();
            });
        };
    }

    /// one captured frame must be fragment number `idx` of the datagram: returns its payload length
    fn check_frag<const CAP: usize>(
        st: &TxState<CAP>,
        mtu: usize,
        want_off: usize,
        last: bool,
        ident: u16,
        ttl: u8,
        proto: u8,
        cks_on: bool,
    ) -> usize {
        assert!(st.frames == 1, "prop:c12_tx_one_frame_per_call");
        let len = st.len0;
        assert!(len <= mtu, "prop:c12_tx_fragment_fits_mtu");
        assert!(len > IPH, "prop:c12_tx_fragment_carries_data");
        let h = hdr(&st.buf0[..IPH]);
        assert!(h.vihl == 0x45, "prop:c12_tx_fragment_header_ihl5");
        assert!(h.total == len, "prop:c12_tx_fragment_total_len_is_frame_len");
        assert!(h.ident == ident, "prop:c12_tx_fragments_share_ident");
        assert!(!h.df && !h.rsv, "prop:c12_tx_fragment_df_clear");
        assert!(h.mf == !last, "prop:c12_tx_mf_on_all_but_last");
        assert!(h.off == want_off, "prop:c12_tx_offset_is_running_payload_sum");
        assert!(last || (len - IPH) % 8 == 0, "prop:c12_tx_non_last_payload_multiple_of_8");
        assert!(h.ttl == ttl && h.proto == proto, "prop:c12_tx_fragment_keeps_ttl_and_protocol");
        assert!(h.src == LOCAL.octets() && h.dst == REMOTE.octets(), "prop:c12_tx_fragment_keeps_addresses");
        if cks_on {
            assert!(h.cksum_ok, "prop:c12_tx_fragment_header_checksum");
        }
        len - IPH
    }

    /// MTU, application payload length, expected fragment count, capture size (>= MTU), reference size (>= datagram)
    fn frag_tx<const MTU: usize, const PLEN: usize, const NF: usize, const CAP: usize, const RC: usize>(
        cks: ChecksumCapabilities,
        raw: bool,
    ) {
        let cks_on = cks.ipv4.tx();
        ip_iface!(dev, iface, MTU, cks.clone());
        ip_iface!(rdev, riface, 1500, cks.clone());
        let payload: [u8; PLEN] = kani::any();
        let udp = UdpRepr { src_port: kani::any(), dst_port: kani::any() };
        let ttl: u8 = kani::any();
        let (proto, iplen) = if raw { (IpProtocol::Unknown(253), PLEN) } else { (IpProtocol::Udp, 8 + PLEN) };
        let ip = Ipv4Repr { src_addr: LOCAL, dst_addr: REMOTE, next_header: proto, payload_len: iplen, hop_limit: ttl };
        let protob: u8 = if raw { 253 } else { 17 };
        // largest 8-aligned payload that fits the MTU behind a 20-byte header (RFC 791)
        let maxp = ((MTU - IPH) / 8) * 8;
        assert!(iplen + IPH > MTU && NF == (iplen + maxp - 1) / maxp && NF >= 2 && NF <= 4);

        // reference: the same datagram on a link that needs no fragmentation
        let mut rs = TxState::<RC>::new();
        {
            let pkt = Packet::new_ipv4(ip, if raw { IpPayload::Raw(&payload[..]) } else { IpPayload::Udp(udp, &payload[..]) });
            let r = riface.inner.dispatch_ip(CapTx { st: &mut rs }, PacketMeta::default(), pkt, &mut riface.fragmenter);
            assert!(r.is_ok() && rs.frames == 1 && rs.len0 == IPH + iplen, "prop:c12_tx_reference_emission");
        }

        let mut s0 = TxState::<CAP>::new();
        let mut s1 = TxState::<CAP>::new();
        let mut s2 = TxState::<CAP>::new();
        let mut s3 = TxState::<CAP>::new();
        {
            let pkt = Packet::new_ipv4(ip, if raw { IpPayload::Raw(&payload[..]) } else { IpPayload::Udp(udp, &payload[..]) });
            let r = iface.inner.dispatch_ip(CapTx { st: &mut s0 }, PacketMeta::default(), pkt, &mut iface.fragmenter);
            assert!(r.is_ok(), "prop:c12_tx_first_fragment_dispatched");
        }
        assert!(s0.frames == 1 && s0.len0 >= IPH, "prop:c12_tx_one_frame_per_call");
        assert!(!iface.fragmenter.finished() && !iface.fragmenter.is_empty(), "prop:c12_tx_unfinished_while_fragments_remain");
        let ident = hdr(&s0.buf0[..IPH]).ident;
        let p0 = check_frag(&s0, MTU, 0, false, ident, ttl, protob, cks_on);

        iface.inner.dispatch_ipv4_frag(CapTx { st: &mut s1 }, &mut iface.fragmenter);
        assert!(iface.fragmenter.finished() == (NF == 2), "prop:c12_tx_finished_exactly_after_last_fragment");
        let p1 = check_frag(&s1, MTU, p0, NF == 2, ident, ttl, protob, cks_on);
        let mut p2 = 0;
        let mut p3 = 0;
        if NF >= 3 {
            iface.inner.dispatch_ipv4_frag(CapTx { st: &mut s2 }, &mut iface.fragmenter);
            assert!(iface.fragmenter.finished() == (NF == 3), "prop:c12_tx_finished_exactly_after_last_fragment");
            p2 = check_frag(&s2, MTU, p0 + p1, NF == 3, ident, ttl, protob, cks_on);
        }
        if NF >= 4 {
            iface.inner.dispatch_ipv4_frag(CapTx { st: &mut s3 }, &mut iface.fragmenter);
            assert!(iface.fragmenter.finished(), "prop:c12_tx_finished_exactly_after_last_fragment");
            p3 = check_frag(&s3, MTU, p0 + p1 + p2, true, ident, ttl, protob, cks_on);
        }
        assert!(p0 + p1 + p2 + p3 == iplen, "prop:c12_tx_fragments_carry_whole_datagram");

        // byte k of the datagram's payload, as carried by the fragment covering it
        let k = any_lt(iplen);
        let got = if k < p0 {
            s0.buf0[IPH + k]
        } else if k < p0 + p1 {
            s1.buf0[IPH + k - p0]
        } else if k < p0 + p1 + p2 {
            s2.buf0[IPH + k - p0 - p1]
        } else {
            s3.buf0[IPH + k - p0 - p1 - p2]
        };
        assert!(got == rs.buf0[IPH + k], "prop:c12_tx_concatenation_equals_unfragmented_emission");
        if raw {
            assert!(got == payload[k], "prop:c12_tx_payload_bytes_exact");
        } else if k >= 8 {
            assert!(got == payload[k - 8], "prop:c12_tx_payload_bytes_exact");
        } else {
            let uh = [(udp.src_port >> 8) as u8, udp.src_port as u8, (udp.dst_port >> 8) as u8, udp.dst_port as u8,
                      ((8 + PLEN) >> 8) as u8, (8 + PLEN) as u8];
            assert!(k >= 6 || got == uh[k], "prop:c12_tx_udp_header_exact");
        }
        // the reference header differs only in what fragmentation must change
        {
            let rh = hdr(&rs.buf0[..IPH]);
            assert!(rh.total == IPH + iplen && !rh.mf && rh.off == 0 && rh.ttl == ttl && rh.proto == protob, "prop:c12_tx_reference_emission");
        }
        // a further egress pass has nothing left to send
        crate::vdump!("p0={} p1={} p2={} p3={} ident={}", p0, p1, p2, p3, ident);
        kani::cover!(iface.fragmenter.finished() && s0.frames + s1.frames + s2.frames + s3.frames == NF, "all fragments emitted");
        kani::cover!(got != 0 && k + 1 == iplen && k >= p0, "last byte of the datagram carried by a later fragment");
    }

    // Grid: max fragment payload is 24 (MTU 44), 32 (MTU 52), 48 (MTU 68 and the unaligned MTU 70).
    // IP payload = 8 (UDP header) + application bytes.

    // @harness props=C12 cfg=KI4 tier=q to=600 mem=6 unwind=12 opts=nomem covers=2 funcs=InterfaceInner::dispatch_ip;InterfaceInner::dispatch_ipv4_frag;DeviceCapabilities::max_ipv4_fragment_size;Fragmenter::finished bounds=MTU_44;_UDP_payload_17_(fragments_24+1);_symbolic_payload_ports_ttl;_Medium::Ip
    #[kani::proof]
    pub(crate) fn ipv4_frag_tx_44_17() {
        frag_tx::<44, 17, 2, 48, 48>(ChecksumCapabilities::ignored(), false);
    }

    // @harness props=C12 cfg=KI4 tier=q to=600 mem=6 unwind=12 opts=nomem covers=2 funcs=InterfaceInner::dispatch_ip;InterfaceInner::dispatch_ipv4_frag;DeviceCapabilities::max_ipv4_fragment_size;Fragmenter::finished bounds=MTU_44;_UDP_payload_41_(fragments_24+24+1);_symbolic_payload_ports_ttl;_Medium::Ip
    #[kani::proof]
    pub(crate) fn ipv4_frag_tx_44_41() {
        frag_tx::<44, 41, 3, 48, 72>(ChecksumCapabilities::ignored(), false);
    }

    // @harness props=C12 kind=mustfail cfg=KI4 tier=q to=600 mem=6 unwind=12 opts=nomem
    #[kani::proof]
    pub(crate) fn ipv4_frag_tx_must_fail() {
        ip_iface!(dev, iface, 44, ChecksumCapabilities::ignored());
        let payload: [u8; 17] = kani::any();
        let udp = UdpRepr { src_port: 1, dst_port: 2 };
        let ip = Ipv4Repr { src_addr: LOCAL, dst_addr: REMOTE, next_header: IpProtocol::Udp, payload_len: 25, hop_limit: 64 };
        let mut s0 = TxState::<48>::new();
        let pkt = Packet::new_ipv4(ip, IpPayload::Udp(udp, &payload[..]));
        let _ = iface.inner.dispatch_ip(CapTx { st: &mut s0 }, PacketMeta::default(), pkt, &mut iface.fragmenter);
        assert!(iface.fragmenter.finished(), "prop:deliberately_false_first_fragment_finishes_datagram");
    }
}
