#!/bin/bash
# usage: tools/seed.sh <worktree> <a|b|..> <seed-id> "<check args, e.g. C04 --only tcp_rx_step>" [...more check arg strings]
# 1. confirms the sub-agent's claims in its scratch worktree (tests pass with the change, demo fails with / passes without),
# 2. stores the change under /verif/seeded/<seed-id>/,
# 3. runs the given checks against the worktree with the change applied (VERIF_REPO=<worktree>; /repo is not touched),
# 4. restores the worktree.
set -u
WT=$1; SUB=$2; ID=$3; shift 3
OUT=$WT/out/$SUB
DST=/verif/seeded/$ID
mkdir -p $DST
export CARGO_TARGET_DIR=$WT/target
cd $WT || exit 2
git checkout -q -- . && git clean -qfd -e out -e target
DEMO=$(python3 -c "import json;print(json.load(open('$OUT/meta.json'))['demo_cmd'])")
NAME=$(echo "$DEMO" | awk '{print $NF}')
log=$DST/confirm.log; : > $log
echo "== patch only: cargo test --offline --lib" >> $log
git apply $OUT/patch.diff || { echo "patch does not apply"; exit 2; }
cargo test --offline --lib -j6 2>&1 | grep -E "^test result|FAILED|failed" >> $log
T1=$(grep -c "^test result: ok. 673 passed" $log)
echo "== patch + demo: $NAME" >> $log
git apply $OUT/demo.diff || { echo "demo does not apply"; exit 2; }
bash -c "$DEMO" 2>&1 | grep -E "^test result|panicked|FAILED" | head -5 >> $log
T2=$(grep -c "^test result: FAILED" $log)
echo "== demo only" >> $log
git apply -R $OUT/patch.diff
bash -c "$DEMO" 2>&1 | grep -E "^test result" >> $log
T3=$(tail -1 $log | grep -c "^test result: ok. [1-9]")
git checkout -q -- . && git clean -qfd -e out -e target
echo "confirm: tests_pass_with_change=$T1 demo_fails_with_change=$T2 demo_passes_without=$T3"
cp $OUT/patch.diff $OUT/demo.diff $DST/
# run the checks against the changed tree
git apply $OUT/patch.diff
RES=""
for args in "$@"; do
  tag=$(echo $args | tr ' ,' '__' | tr -cd 'A-Za-z0-9_')
  (cd /verif && VERIF_REPO=$WT VERIF_NOSLOTS=${VERIF_NOSLOTS:-} ./check $args > $DST/check_$tag.out 2>&1; echo "exit=$?" >> $DST/check_$tag.out)
  ex=$(tail -1 $DST/check_$tag.out)
  nv=$(grep -c "^VIOLATION" $DST/check_$tag.out)
  RES="$RES [$args: $ex violations=$nv]"
done
git checkout -q -- . && git clean -qfd -e out -e target
python3 - <<E
import json
m=json.load(open('$OUT/meta.json'))
m.update(dict(seed_id='$ID', confirmed=dict(tests_pass_with_change=bool($T1), demo_fails_with_change=bool($T2), demo_passes_without_change=bool($T3)),
              ran="""$RES""".strip(), how="tools/seed.sh: confirmed in a scratch worktree, then ./check run with VERIF_REPO=<worktree with patch applied>"))
json.dump(m,open('$DST/meta.json','w'),indent=1)
E
echo "result:$RES"
