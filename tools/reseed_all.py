#!/usr/bin/env python3
"""Regression of every stored seeded change against /repo's HEAD and the current harnesses:
for each /verif/seeded/<id>/ re-run (tools/reseed.sh) the harnesses that reported it, expect exit=1.
usage: tools/reseed_all.py [jobs]   -> /verif/seeded/REGRESSION.txt"""
import glob, json, os, re, subprocess, sys
from concurrent.futures import ThreadPoolExecutor
V = os.path.dirname(os.path.dirname(os.path.abspath(__file__)))
jobs = int(sys.argv[1]) if len(sys.argv) > 1 else 2
DROP = {"rt_sixlowpan_ext_header_inline", "finding_arp_subnet_broadcast_sender"}
work = []
for d in sorted(glob.glob(V + "/seeded/s*")):
    sid = os.path.basename(d)
    m = json.load(open(d + "/meta.json"))
    hs = {}
    for f in glob.glob(d + "/check_*.out"):
        for l in open(f, errors="replace"):
            mm = re.match(r"VIOLATION property=(\S+) replay=.*/([A-Za-z0-9_@]+)-[0-9a-f]+\.json", l)
            if mm and mm.group(2) not in DROP:
                hs.setdefault(mm.group(1), set()).add(mm.group(2))
    if not hs:
        work.append((sid, None)); continue
    # one property is enough; take the one with most harnesses, at most 3 harnesses
    p = max(hs, key=lambda k: len(hs[k]))
    names = sorted(hs[p])[:3]
    work.append((sid, "%s --only %s" % (p, ",".join(names))))
def run(w):
    sid, args = w
    if args is None:
        return "%s: no recorded detecting harness" % sid
    r = subprocess.run([V + "/tools/reseed.sh", sid.split("-")[0] + "-", args], capture_output=True, text=True)
    return (r.stdout.strip().splitlines() or ["%s: no output %s" % (sid, r.stderr[-200:])])[-1]
with ThreadPoolExecutor(jobs) as ex, open(V + "/seeded/REGRESSION.txt", "w") as out:
    for line in ex.map(run, work):
        print(line); out.write(line + "\n"); out.flush()
