#!/usr/bin/env python3
"""Regenerate /verif/MANIFEST.json from the per-property table below.
usage: tools/gen_manifest.py C01 C02 ...   (ids to claim; every other property goes to not_applicable)"""
import json, sys, os

VERIF = os.path.dirname(os.path.dirname(os.path.abspath(__file__)))
TECH = ("bounded symbolic execution of the real Rust code: Kani 0.68 (MIR -> goto) + CBMC 6.11 + CaDiCaL SAT; "
        "harnesses spliced into a scratch copy of /repo's working tree; ")
NOTE_COMMON = (" Trusted base: Kani's MIR->goto translation, CBMC bit-precise semantics, the SAT solver; dev-profile "
               "semantics (overflow checks, debug_assert on). Nothing is claimed outside the stated bounds; unwinding "
               "assertions are on, so a bound too small for the current code fails loudly. Counterexamples are replayed "
               "natively (Kani playback sysroot, no cfg(test)) before a VIOLATION is printed.")

P = {
 "C01": dict(
  tech="1-induction over INV_tcp with ghost peer stream (one process / dispatch / send / recv step from an arbitrary invariant state), closed-loop two-socket BMC in the thorough tier",
  text="Solver-decided assume-guarantee decomposition: from ANY synchronized socket state satisfying the representation invariant (4-byte rings, all 2^32 sequence positions, every timer kind) one process() of ANY peer-consistent segment keeps every readable byte equal to the peer's stream, takes the FIN only after all preceding bytes, and ACK processing keeps unacknowledged tx bytes in place; one dispatch() emits exactly the application's bytes; recv/peek hand out exactly the next bytes once, Finished only after all of them; send appends unmodified. Histories of any length follow by induction; the thorough tier adds a 4-step closed loop of two real sockets with loss/duplication and symbolic ISNs.",
  note="Ghost stream universe 12 bytes, rings 4 bytes, payload <= 6, <= 2 out-of-order ranges (assembler limit 2); rings > 64 KiB only through one real handshake + one segment on a 128 KiB ring without byte exactness; no congestion control in the step harnesses (Reno's floor separately), CUBIC (f64) not encoded; Interface::poll plumbing and checksum-collision corruption outside. RTT samples assumed <= 10 min.",
  ref="DESIGN.md 5/C01, 9, 13"),
 "C02": dict(
  tech="1-induction on the finite-deadline invariant L1 (strengthened: a retransmitting deadline exists), evaluated with the real poll_at/seq_to_transmit, over process/dispatch/send/close steps; Reno window floor step",
  text="Safety core of the liveness statement, decided for every step from every invariant state: whenever sequence space is unacknowledged or unsent (data, SYN, FIN) after a process(), dispatch() (emit Ok or Err), send or close, something is sendable now or a retransmission / fast-retransmission / zero-window-probe timer runs or the user timeout will abort - and poll_at() then reports a finite instant; at or after the deadline dispatch() transmits or re-arms; Reno's window never collapses below one segment after ack/loss/rto. Found and fixed five stall defects this way (known_findings.json).",
  note="True liveness (eventual delivery under a fair network, convergence of back-off) is NOT decided - only that no reachable single step leaves the socket without a retransmitting deadline. Same bounds as C01; keep-alive/delayed-ACK deadlines deliberately do not count.",
  ref="DESIGN.md 5/C02, 13, 14"),
 "C04": dict(
  tech="1-induction over INV_tcp with ghost peer stream on tcp::Socket::process and the read API; real-handshake harness on a 128 KiB ring for window scaling",
  text="For ANY peer-consistent segment (any seq/ack/flags/window/options, payload <= 6) in ANY synchronized state: delivered and recorded bytes equal the peer's bytes at those sequence numbers, nothing at or beyond the advertised right edge is accepted, recorded ranges are never dropped, the ACK number sent (reply or dispatch) is exactly RCV.NXT, the FIN is taken only in order and never when the segment was cut at the window edge; reads never move RCV.NXT. With a 128 KiB ring (shift 2) nothing beyond the unscaled SYN window is accepted after a real active or passive open.",
  note="Bounds as C01. The advertised edge is modelled through the invariant clauses A1/A2 (asserted preserved).",
  ref="DESIGN.md 5/C04, 9"),
 "C05": dict(
  tech="one dispatch() step from an arbitrary invariant state with a recording emit closure (Ok or Err); handshake harnesses for SYN/SYN-ACK fields",
  text="For every state, timer phase, peer window (any u16 << scale), peer MSS 48..65535, MTU 68..1500: an emitted data segment lies inside the peer's window unless it is the one-byte zero-window probe, carries <= MSS and fits the MTU, its bytes are exactly the queued application bytes at those sequence numbers (also on timeout / fast retransmission), starts at SND.NXT or SND.UNA, FIN only in FIN states after all queued data; SYNs carry the unscaled window, MSS from the MTU and the negotiated scale; later windows are shifted as negotiated; dispatch never alters the queue.",
  note="Tx ring 4 bytes; no congestion controller in the step harness; CUBIC not encoded.",
  ref="DESIGN.md 5/C05"),
 "C17": dict(
  tech="ghost (pre-state, post-state) edge check on every process/dispatch/API step from arbitrary invariant states plus real listen()/connect() base cases",
  text="Every state change caused by one segment, one dispatch or one API call is an RFC 9293 edge with its prescribed cause: ESTABLISHED only by an ACK of exactly ISS+1 (SYN+ACK in SYN-SENT), CLOSE-WAIT/CLOSING only by an in-order FIN, FIN-WAIT-2 / CLOSED-from-LAST-ACK only by the ACK of our FIN, TIME-WAIT only when both, TIME-WAIT ends only through its timer, only an in-window RST (RFC 9293 acceptability test; exact ACK in SYN-SENT) resets, reads/writes never change state.",
  note="Bounds as C01; flag combinations reach process() through TcpRepr::parse's control mapping (C06/C07).",
  ref="DESIGN.md 5/C17, 9"),
 "C18": dict(
  tech="one process()/dispatch()/poll() step of dhcpv4::Socket from an arbitrary client state on byte-template server messages (RFC 2131/2132 layouts with symbolic field values), parse_ack lease arithmetic for all values, a real-history harness in the thorough tier",
  text="For every client state and every server message of ten option layouts (all header fields and option values symbolic): a lease is configured only from a DHCPACK with the socket's transaction id and hardware address, a server identifier, a contiguous mask and a unicast address, and only after a REQUEST was actually handed to the device; then now <= T1 <= T2 <= expiry <= now + min(lease, max_lease) for ALL u32 lease/T1/T2 values; at expiry dispatch() resets and poll() yields Deconfigured, poll_at never exceeds expiry, renew (unicast) precedes rebind (broadcast) precedes expiry, discovery/request retries have bounded intervals, emit failure changes nothing.",
  note="Messages follow fixed layouts (option order/presence per harness, values free); malformed option bytes are C07/C03's subject. Interface MTU 82..1514, request_retries <= 16 in the dispatch harness; the PRNG state is symbolic after construction.",
  ref="DESIGN.md 5/C18, 14"),
 "C09": dict(
  tech="model-based one-step checks of the udp/icmp/raw socket API against a ghost FIFO (states reached through symbolic public API scripts), interface-level delivery/egress harnesses with a frame-capturing device",
  text="For UDP (1..3 metadata slots, payload ring 0..8, IPv4 and IPv6 endpoints), ICMP and raw sockets: an accepted send appends exactly (addressing, bytes), a refused one leaves the queue unchanged, dispatch with emit=Err re-offers the head unmodified and with emit=Ok pops exactly the head; process appends exactly one whole datagram with source/destination metadata or nothing; recv/peek hand out datagrams whole and in order, a short user buffer yields Truncated; at the interface a datagram for a bound socket is delivered exactly once with exact payload and metadata, socket_egress hands a queued datagram to the device exactly once and keeps it queued under device back-pressure.",
  note="ICMP/raw use concrete rings (20/44 bytes) and 2-step scripts; ring wrap/padding is covered by the UDP and PacketBuffer harnesses. Five defects fixed (PacketBuffer padding, IP-version mix-ups in UDP/raw dispatch, ICMP errors with truncated quotes never delivered to port-bound ICMP sockets).",
  ref="DESIGN.md 5/C09, 14"),
 "C10": dict(
  tech="dispatch_ip / dispatch / socket_egress on symbolic packets with a frame-capturing TxToken; harness-side independent well-formedness checks and RFC 1071 reference checksums; reply-source checks in the ingress harnesses",
  text="For UDP, TCP (SYN with MSS+WS+SACK-permitted(+TS), data with TS and a SACK block), ICMPv4 echo and ARP replies with all field values symbolic (Ethernet, MTU 1500, tx checksums on): the captured frame has the exact length, correct Ethernet addresses/ethertype, IPv4 ihl/total length/ttl/protocol/addresses, a header checksum and L4 checksums that verify under an independent reference, TCP data offset and an option list that is well-formed, terminated and zero-padded; every reply built on ingress (RST, ICMP errors, echo replies, NDISC/ARP) has a source that is one of the interface's own unicast addresses.",
  note="Concrete MTU 1500 and concrete time (symbolic values exhaust 8 GB); payloads 2-4 bytes; IPv6 packets are checked at emit level (iface_egress6.rs: the IPv6 header and upper-layer octets produced by the emit calls dispatch_ip makes - echo reply, port unreachable incl. the 1280-octet quote rule, neighbor advertisement, MLD report with router alert, UDP from a socket, TCP RST, MSS vs. small MTU; multicast MAC mapping), because whole IPv6 frames through dispatch_ip exceed 16-24 GB; neighbor solicitations and IGMP reports are not covered; 6LoWPAN frame layout is checked through C20/C06 templates; oversize (fragmented) frames are C12's grid (which serves C10 in the thorough tier). One known finding (echo reply sourced from ::1, see C11).",
  ref="DESIGN.md 5/C10, 13"),
 "C11": dict(
  tech="process_ip / process_ethernet on byte-template packets with fully symbolic IPv4 addresses (32 bits each) and IPv6 addresses (9/4 symbolic octets covering every class), ports, flags, against a harness-side address classification",
  text="For every source/destination class (own unicast, foreign unicast, subnet and limited broadcast, joined/unjoined multicast, all-nodes, solicited-node, unspecified, loopback) and every port relation: packets not addressed to the interface are neither delivered nor answered; a socket only receives traffic matching its endpoint; no TCP reset or ICMP error is sent towards or because of a non-unicast address nor in answer to a reset or ICMP error; TCP to broadcast/multicast never changes a socket; frames for another station are ignored; packets with a wrong IP/L4 checksum have no effect at all.",
  note="One socket per harness (three in the set exhaust the solver); raw-IP medium for the IP layer, Ethernet for the link filter; 802.15.4 PAN filtering is in C20/C03's harnesses. Three known findings (ICMPv6 Parameter Problem code 1 to multicast, enforced by /repo's own test; ::1 accepted as destination without being configured; an echo request from source ::1 to a multicast group answered from ::1), each checked by a concrete-shape finding harness. IPv6 harnesses run with one socket type per build configuration.",
  ref="DESIGN.md 5/C11, 14"),
 "C14": dict(
  tech="model-based one-step checks of every public RingBuffer / PacketBuffer operation from arbitrary (API-reachable) states against a ghost queue",
  text="For every capacity 0..=6, every read position/length and every argument: each of the 17 RingBuffer operations returns, keeps and stores exactly what a simple queue model says (incl. the unallocated window used by TCP reassembly), never exceeds capacity; PacketBuffer (<= 3 metadata slots, payload ring <= 8, state = empty buffer at any read pointers + 3 symbolic public steps) returns (header, payload) pairs whole, in order, once; a refused enqueue or declined dequeue leaves the queue unchanged; an empty buffer accepts any size <= capacity through either enqueue interface.",
  note="Capacities above the bounds outside; element type u8.",
  ref="DESIGN.md 5/C14"),
 "C15": dict(
  tech="one-step checks from arbitrary canonical tracker states (shown API-reachable) against a membership predicate; real 4-operation history against a bitmap",
  text="For every tracker state with hole/data sizes <= 16 and every offset/size <= 40: add is exactly set union, refused only when more than MAX disjoint ranges would be needed and then leaves the tracker bit-identical, touching ranges merge, remove_front shifts by what it returns, add_then_remove_front never fails at offset 0, iter_data/peek_front/is_empty agree; MAX = 4 and 3 in the quick tier, 8 in the thorough tier for set union, remove_front, the views and state reachability (the refusal and add_then_remove_front harnesses gave no answer at MAX = 8 within 30 minutes and stay at 4 and 3).",
  note="MAX = 32 not reached (solver budget); sizes above the bounds outside.",
  ref="DESIGN.md 5/C15"),
 "C03": dict(
  tech="no-panic / termination obligations (Kani's implicit panic, bounds, overflow and unwinding assertions) on every ingress entry point driven with arbitrary bytes or byte templates: process_ip/process_ethernet/process_ieee802154-level harnesses, all wire parsers (shared with C07), DNS/DHCP socket process(), 6LoWPAN decompression and reassembly, tcp::Socket::process from arbitrary invariant states; an echo request answered after a fragment history",
  text="Per ingress path, decided by the solver for all inputs within the bound: IPv4 and IPv6 packets with every header byte free (raw-IP medium, one socket), Ethernet frames with free header, every checked wire view and Repr::parse on arbitrary bytes up to the per-type bound (C07's harnesses), DNS responses of 25 record layouts and free name bytes, DHCP messages of ten layouts, 6LoWPAN IPHC/NHC prefixes with free bytes and FRAG1/FRAGN headers with any size/offset/addressing, IPv4 reassembly with offsets beyond the buffer, TCP segments in any synchronized state: no panic, no arithmetic overflow, no out-of-bounds access, every loop terminates within its unwinding bound; after two symbolic fragments an echo request is still answered. Multi-frame sequences (iface_seq.rs, single-socket-type configurations): TCP listener, established and SYN-SENT sockets receiving two segments with free TCP header octets; a UDP socket receiving three datagrams with free UDP octets (the last meeting a full buffer); an ICMP socket receiving two ICMP errors with free quotes; Ethernet ARP with all 28 octets free after/before IPv4 frames (neighbor cache fill and eviction); IPv6 UDP pairs; a DHCP client receiving two server messages with free header fields and option values; a complete 6LoWPAN FRAG1 through process_ieee802154 - each followed by a well-formed echo request that must be answered from the interface's own address.",
  note="Decomposed per entry point and per single frame from arbitrary (invariant) state rather than over whole frame sequences; Interface::poll's loop over sockets is exercised with one socket. Frame lengths are bounded per harness (20-96 bytes), not the 1500-byte MTU. Interface-level free-byte harnesses use a concrete IP header (to an own address, any source) and free octets above it, one harness per protocol / next-header value; a fully free IP header and InterfaceInner::process_hopbyhop (IPv6 hop-by-hop options at the interface level) did not fit the solver budget and are covered at the wire level only (C07's views). Several remotely triggerable panics found this way were fixed (known_findings.json).",
  ref="DESIGN.md 5/C03, 14"),
 "C06": dict(
  tech="emit-then-parse and parse-then-emit round-trip harnesses per Repr type and per concrete shape with every field value symbolic, emitting into a zeroed and into a garbage buffer and comparing them at a symbolic index",
  text="For Ethernet, ARP, IPv4, IPv6 and its extension headers/options, ICMPv4, ICMPv6 incl. NDISC (all five messages, all option kinds) and MLD, IGMP, UDP, TCP (every option combination the stack emits, SACK ranges), DHCPv4 (client and server shapes), DNS queries, IEEE 802.15.4, 6LoWPAN IPHC / UDP-NHC / fragment headers: buffer_len() equals the bytes written, emit writes every byte of its region (same result on a dirty buffer), new_checked accepts the emitted bytes and parse returns exactly the emitted representation; for arbitrary bytes that parse, parse(emit(parse(b))) == parse(b).",
  note="Payload lengths bounded per harness (0-8 bytes; DHCP option lists by shape); checksums ignored here (C08). Two known findings (DHCP renew/rebind durations never emitted; 802.15.4-2015 PAN-id compression with two extended addresses). 13 defects fixed.",
  ref="DESIGN.md 5/C06, 14"),
 "C07": dict(
  tech="arbitrary-bytes harnesses: symbolic buffer of symbolic length <= N per wire type, new_checked, then every read accessor applicable to the message type, Repr::parse, and for a few types the pretty printer; termination by unwinding assertions (opts=term); one-step harness over all iterator states for DNS parse_name",
  text="For every byte string up to the per-type bound (Ethernet 20, ARP 40, IPv4 32, IPv6 48, extension headers/options 12-28, ICMPv4 44, every ICMPv6/NDISC/MLD message type 32-56, UDP 32, TCP 30 with option walks, DHCP 240+6 option bytes and shaped option lists, DNS 28-32, IEEE 802.15.4 40 incl. the auxiliary security header, 6LoWPAN frag/IPHC/NHC 12-44): a failed check returns Err, and after a successful check no accessor, Repr::parse or option/name iterator (and, for UDP, IGMP, IPv4, IPv6, IEEE 802.15.4, no Display/pretty-printer) panics, overflows, reads outside the buffer or fails to terminate.",
  note="Lengths above the per-type bounds (up to 2048 in the property) are outside; whole parse_name iterations rest on the one-step harness plus the (|packet|,|bytes|) measure argument in the harness comments; pretty printers: only UDP, IGMP and ARP-free Display impls of IPv4/IPv6/IEEE 802.15.4 (+ IPv6 extension headers in the thorough tier) are decided; the nested printers (Ethernet > IPv4/IPv6 > ICMP/TCP) and the NDISC-option and TCP printers ran out of 16 GB (core::fmt under CBMC) and are NOT part of the claim; the larger-N twins of the TCP/DNS/DHCP view harnesses likewise. Three defects fixed.",
  ref="DESIGN.md 5/C07, 14"),
 "C08": dict(
  tech="equivalence of checksum::data/combine/pseudo_header with an independent RFC 1071 reference on symbolic buffers; emit-then-verify-with-reference per protocol; accept-implies-valid and reject-invalid harnesses on corrupted packets; interface-level drop-without-effect harnesses",
  text="checksum::data equals the RFC 1071 reference for every content, every length <= 12 (<= 24 thorough) and start offset 0..3, is additive over every even split, combine is one's-complement addition; every emitted IPv4 header, ICMPv4, ICMPv6, UDP (v4/v6, zero sent as ffff) and TCP (three option shapes, v4/v6) packet verifies under the reference; a packet that parses with checksums on verifies under the reference and any 1-2 byte corruption that breaks the reference checksum is rejected; with rx checksums off any field is accepted, with tx off the field is zero; a UDP/TCP/ICMP packet with a bad checksum delivered to the interface changes no socket and produces no reply.",
  note="Symbolic words per harness are limited (3-9) because checksums over many symbolic words are SAT-hard; lengths beyond 24 bytes outside. One known finding: a zero UDP checksum over IPv6 is accepted.",
  ref="DESIGN.md 5/C08, 14"),
 "C12": dict(
  tech="one-step induction over PacketAssembler/PacketAssemblerSet states for reassembly, the real dispatch_ip/dispatch_ipv4_frag/ipv4_egress on a size grid with a capturing device for transmit, busy-fragmenter harnesses through poll_egress",
  text="Transmit: for a grid of (MTU, payload) pairs with symbolic payload bytes every fragment is a well-formed IPv4 packet within the MTU, offsets are multiples of 8 and contiguous, MF is set on all but the last, ident/addresses/protocol are shared, header checksums are valid and the concatenated payloads equal the datagram; a datagram too big for the buffer is dropped whole; a second oversized datagram never overwrites one in flight. Receive: from any assembler state one more fragment (any offset/length/MF) yields exactly the bytes offered at their offsets or nothing, completion only when every byte is present, expiry and key matching as specified; through process_ipv4 for fixed orders plus one arbitrary fragment.",
  note="Reassembly/fragmentation buffers 256 (64 in KI4r) bytes, 2 reassembly slots, <= 3 fragments on transmit; any-order sequences longer than the one-step harness are carried by the induction, not enumerated.",
  ref="DESIGN.md 5/C12, 14"),
 "C13": dict(
  tech="per-component schedule obligations with symbolic clocks: for each timer-owning component (tcp, dhcpv4, dns sockets, socket Meta neighbor back-off, SLAAC, fragmenter, Interface::poll_at merge) a step harness from arbitrary invariant state comparing poll_at with what a poll at a symbolic instant does",
  text="Sufficiency: from any state, a poll strictly before the reported poll_at sends nothing and changes no protocol state. Non-spinning: after a poll at the reported instant on an accepting device, poll_at is None or strictly later (no zero-delay loop), for TCP timers, DHCP discovery/renewal, DNS retransmit/timeout, neighbor-discovery back-off, SLAAC solicitations and prefix/route expiry; Interface::poll_at is the minimum of its components.",
  note="MLD/IGMP report scheduling is outside (joins are announced by the next poll and not scheduled through poll_at). Components are composed by the min-merge harness, not by whole-interface runs. Six defects fixed.",
  ref="DESIGN.md 5/C13, 14"),
 "C16": dict(
  tech="model-based one-step checks of neighbor::Cache and Routes against ghost models (API-prefix states), and of lookup_hardware_addr / dispatch_ip / process_arp / process_ndisc on a real Ethernet Interface with symbolic destination, gateways, cache contents and instants",
  text="Route lookup is the gateway of the longest live matching prefix; a cache lookup returns only a hardware address filled for exactly that address less than 60 s ago, eviction removes the oldest entry; a unicast packet is transmitted only to the hardware address cached for its next hop, on a miss only a well-formed ARP request / neighbor solicitation goes out, at most one per second (inductive argument on silent_until), and socket data stays queued; the cache is filled only from ARP/NDISC messages that pass the RFC 826 / RFC 4861 validity checks (all 28 ARP bytes symbolic).",
  note="3-slot cache with fixed keys inside the Interface (symbolic keys in the stand-alone cache harness), <= 2 routes; IPv6 sender not yet in the cache and the NDISC hop-limit gate are outside (stated). One defect fixed.",
  ref="DESIGN.md 5/C16, 14"),
 "C19": dict(
  tech="one process()/dispatch()/poll_at step of dns::Socket from an arbitrary pending-query state on RFC 1035 byte-template responses (25 record layouts, symbolic field values) against an independent name-comparison reference; free-byte harnesses for the name parsers",
  text="A query completes only from a response from port 53 (or the mDNS port) to the query's port, with its transaction id, QR set and the question repeated, and only with the addresses of records of the requested type owned by the queried name or the end of its CNAME chain, in order; any other response leaves the query unchanged (identity, name, timers); NXDomain or an answer without a usable record fails it; retransmission delays double from 1 s to the 10 s cap, fail-over to the next server happens exactly at the 10 s timeout, and the query fails when servers are exhausted; the name iterator terminates on any bytes including pointer loops.",
  note="Names of two one-byte labels in the query, <= 2 answer records, 2 servers, 1 query slot; fields that decide parser errors are concrete per layout (enumerated). Three defects fixed.",
  ref="DESIGN.md 5/C19, 14"),
 "C20": dict(
  tech="byte-template comparison of the real IPHC/NHC compression (compressed_packet_size + the emit calls ipv6_to_sixlowpan makes) and decompression (sixlowpan_to_ipv6) for enumerated shapes with all field values symbolic; dispatch_ieee802154_frag and process_sixlowpan_fragment one-call harnesses",
  text="For ten address/port shapes in the quick tier (link-local derived from short/extended link addresses, global, multicast 8/32/48/128-bit forms, UDP ports uncompressed/8-bit/4-bit, ICMPv6/UDP/TCP, in-line hop limit and next header) and 18 more in the thorough tier: the compressed bytes equal an RFC 6282 template written in the harness, the declared size equals the bytes written, and decompressing the template yields exactly the IPv6 datagram (every header byte compared at a symbolic index); FRAGN frames carry the right size/tag/offset and bytes; a FRAG1 that completes its datagram is delivered by the same call; malformed sizes and addressing are dropped without panic.",
  note="Payload <= 4 octets; whole ipv6_to_sixlowpan calls are thorough-tier only; dispatch_ieee802154 with fragmentation, two-call reassembly sequences through process_sixlowpan_fragment and the busy-fragmenter scenario ran out of 16 GB and are NOT part of the claim (any-order reassembly is decided for the shared PacketAssembler by C12's induction harnesses; the 6LoWPAN-specific steps by the one-call FRAG1 and FRAGN-transmit harnesses). One known finding (the in-line UDP checksum is not restored on decompression). Nine defects fixed.",
  ref="DESIGN.md 5/C20, 14"),
}

def main():
    claimed = [a for a in sys.argv[1:] if a in P]
    props = [json.loads(l) for l in open(os.path.join(VERIF, "properties.jsonl"))]
    pending = {}
    pf = os.path.join(VERIF, "tools", "not_applicable.json")
    if os.path.exists(pf):
        pending = json.load(open(pf))
    checks = []
    for p in props:
        i = p["id"]
        if i not in claimed:
            continue
        e = P[i]
        checks.append({
            "property_id": i,
            "quick_cmd": "./check %s --tier quick" % i,
            "thorough_cmd": "./check %s --tier thorough" % i,
            "evidence_file": "/verif/evidence/%s.json" % i,
            "replay_cmd_template": "./check --replay {path}",
            "engine": "kani-cbmc",
            "technique": TECH + e["tech"],
            "level_claimed": {"category": "model_checking", "text": e["text"], "design_ref": e["ref"]},
            "level_note": e["note"] + NOTE_COMMON,
        })
    m = {
        "version": 1,
        "setup_cmd": "./check --self-test",
        "hooks": {
            "guard": "cfg(kani)",
            "enable": "no source hooks are committed: each check copies /repo's working tree to a scratch directory, appends `#[cfg(kani)] include!(<harness>)` lines per harness/splice.json and runs cargo kani there",
            "baseline_off_cmd": "cd /repo && cargo test --workspace --no-fail-fast --offline",
            "source_commits": [],
            "add_only": True,
        },
        "engines": [{"name": "kani-cbmc", "path": "/verif/check", "serves_properties": claimed,
                     "kind_free_text": "Kani 0.68.0 (rustc MIR -> goto) + CBMC 6.11.0 + CaDiCaL; native replay of counterexamples with Kani's playback sysroot"}],
        "checks": checks,
        "not_applicable": [{"property_id": p["id"], "reason": pending.get(p["id"], "check under construction in this session; not yet claimed")}
                           for p in props if p["id"] not in claimed],
        "notes": "Solver-based checking of the real code (see DESIGN.md). Genuine defects found are fixed in /repo as 'fix:' commits or listed in known_findings.json.",
    }
    json.dump(m, open(os.path.join(VERIF, "MANIFEST.json"), "w"), indent=1)
    print("claimed:", claimed)

if __name__ == "__main__":
    main()
