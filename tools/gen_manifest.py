#!/usr/bin/env python3
"""Regenerate /verif/MANIFEST.json from the per-property table below.
usage: tools/gen_manifest.py C01 C02 ...   (ids to claim; every other property goes to not_applicable)"""
import json, sys, os

VERIF = os.path.dirname(os.path.dirname(os.path.abspath(__file__)))
TECH = ("bounded symbolic execution of the real Rust code: Kani 0.68 (MIR -> goto) + CBMC 6.11 + CaDiCaL SAT; "
        "harnesses spliced into a scratch copy of /repo's working tree; ")
NOTE_COMMON = (" Trusted base: Kani's MIR->goto translation, CBMC bit-precise semantics, the SAT solver; dev-profile "
               "semantics (overflow checks, debug_assert on). Nothing is claimed outside the stated bounds; unwinding "
               "assertions are on, so a bound too small for the current code fails loudly. Counterexamples are replayed "
               "natively (Kani playback sysroot, no cfg(test)) before a VIOLATION is printed.")

P = {
 "C01": dict(
  tech="1-induction over INV_tcp with ghost peer stream (one process / dispatch / send / recv step from an arbitrary invariant state), closed-loop two-socket BMC in the thorough tier",
  text="Solver-decided assume-guarantee decomposition: from ANY synchronized socket state satisfying the representation invariant (4-byte rings, all 2^32 sequence positions, every timer kind) one process() of ANY peer-consistent segment keeps every readable byte equal to the peer's stream, takes the FIN only after all preceding bytes, and ACK processing keeps unacknowledged tx bytes in place; one dispatch() emits exactly the application's bytes; recv/peek hand out exactly the next bytes once, Finished only after all of them; send appends unmodified. Histories of any length follow by induction; the thorough tier adds a 4-step closed loop of two real sockets with loss/duplication and symbolic ISNs.",
  note="Ghost stream universe 12 bytes, rings 4 bytes, payload <= 6, <= 2 out-of-order ranges (assembler limit 2); rings > 64 KiB only through one real handshake + one segment on a 128 KiB ring without byte exactness; no congestion control in the step harnesses (Reno's floor separately), CUBIC (f64) not encoded; Interface::poll plumbing and checksum-collision corruption outside. RTT samples assumed <= 10 min.",
  ref="DESIGN.md 5/C01, 9, 13"),
 "C02": dict(
  tech="1-induction on the finite-deadline invariant L1 (strengthened: a retransmitting deadline exists), evaluated with the real poll_at/seq_to_transmit, over process/dispatch/send/close steps; Reno window floor step",
  text="Safety core of the liveness statement, decided for every step from every invariant state: whenever sequence space is unacknowledged or unsent (data, SYN, FIN) after a process(), dispatch() (emit Ok or Err), send or close, something is sendable now or a retransmission / fast-retransmission / zero-window-probe timer runs or the user timeout will abort - and poll_at() then reports a finite instant; at or after the deadline dispatch() transmits or re-arms; Reno's window never collapses below one segment after ack/loss/rto. Found and fixed five stall defects this way (known_findings.json).",
  note="True liveness (eventual delivery under a fair network, convergence of back-off) is NOT decided - only that no reachable single step leaves the socket without a retransmitting deadline. Same bounds as C01; keep-alive/delayed-ACK deadlines deliberately do not count.",
  ref="DESIGN.md 5/C02, 13, 14"),
 "C04": dict(
  tech="1-induction over INV_tcp with ghost peer stream on tcp::Socket::process and the read API; real-handshake harness on a 128 KiB ring for window scaling",
  text="For ANY peer-consistent segment (any seq/ack/flags/window/options, payload <= 6) in ANY synchronized state: delivered and recorded bytes equal the peer's bytes at those sequence numbers, nothing at or beyond the advertised right edge is accepted, recorded ranges are never dropped, the ACK number sent (reply or dispatch) is exactly RCV.NXT, the FIN is taken only in order and never when the segment was cut at the window edge; reads never move RCV.NXT. With a 128 KiB ring (shift 2) nothing beyond the unscaled SYN window is accepted after a real active or passive open.",
  note="Bounds as C01. The advertised edge is modelled through the invariant clauses A1/A2 (asserted preserved).",
  ref="DESIGN.md 5/C04, 9"),
 "C05": dict(
  tech="one dispatch() step from an arbitrary invariant state with a recording emit closure (Ok or Err); handshake harnesses for SYN/SYN-ACK fields",
  text="For every state, timer phase, peer window (any u16 << scale), peer MSS 48..65535, MTU 68..1500: an emitted data segment lies inside the peer's window unless it is the one-byte zero-window probe, carries <= MSS and fits the MTU, its bytes are exactly the queued application bytes at those sequence numbers (also on timeout / fast retransmission), starts at SND.NXT or SND.UNA, FIN only in FIN states after all queued data; SYNs carry the unscaled window, MSS from the MTU and the negotiated scale; later windows are shifted as negotiated; dispatch never alters the queue.",
  note="Tx ring 4 bytes; no congestion controller in the step harness; CUBIC not encoded.",
  ref="DESIGN.md 5/C05"),
 "C17": dict(
  tech="ghost (pre-state, post-state) edge check on every process/dispatch/API step from arbitrary invariant states plus real listen()/connect() base cases",
  text="Every state change caused by one segment, one dispatch or one API call is an RFC 9293 edge with its prescribed cause: ESTABLISHED only by an ACK of exactly ISS+1 (SYN+ACK in SYN-SENT), CLOSE-WAIT/CLOSING only by an in-order FIN, FIN-WAIT-2 / CLOSED-from-LAST-ACK only by the ACK of our FIN, TIME-WAIT only when both, TIME-WAIT ends only through its timer, only an in-window RST (RFC 9293 acceptability test; exact ACK in SYN-SENT) resets, reads/writes never change state.",
  note="Bounds as C01; flag combinations reach process() through TcpRepr::parse's control mapping (C06/C07).",
  ref="DESIGN.md 5/C17, 9"),
 "C18": dict(
  tech="one process()/dispatch()/poll() step of dhcpv4::Socket from an arbitrary client state on byte-template server messages (RFC 2131/2132 layouts with symbolic field values), parse_ack lease arithmetic for all values, a real-history harness in the thorough tier",
  text="For every client state and every server message of ten option layouts (all header fields and option values symbolic): a lease is configured only from a DHCPACK with the socket's transaction id and hardware address, a server identifier, a contiguous mask and a unicast address, and only after a REQUEST was actually handed to the device; then now <= T1 <= T2 <= expiry <= now + min(lease, max_lease) for ALL u32 lease/T1/T2 values; at expiry dispatch() resets and poll() yields Deconfigured, poll_at never exceeds expiry, renew (unicast) precedes rebind (broadcast) precedes expiry, discovery/request retries have bounded intervals, emit failure changes nothing.",
  note="Messages follow fixed layouts (option order/presence per harness, values free); malformed option bytes are C07/C03's subject. Interface MTU 82..1514, request_retries <= 16 in the dispatch harness; the PRNG state is symbolic after construction.",
  ref="DESIGN.md 5/C18, 14"),
 "C09": dict(
  tech="model-based one-step checks of the udp/icmp/raw socket API against a ghost FIFO (states reached through symbolic public API scripts), interface-level delivery/egress harnesses with a frame-capturing device",
  text="For UDP (1..3 metadata slots, payload ring 0..8, IPv4 and IPv6 endpoints), ICMP and raw sockets: an accepted send appends exactly (addressing, bytes), a refused one leaves the queue unchanged, dispatch with emit=Err re-offers the head unmodified and with emit=Ok pops exactly the head; process appends exactly one whole datagram with source/destination metadata or nothing; recv/peek hand out datagrams whole and in order, a short user buffer yields Truncated; at the interface a datagram for a bound socket is delivered exactly once with exact payload and metadata, socket_egress hands a queued datagram to the device exactly once and keeps it queued under device back-pressure.",
  note="ICMP/raw use concrete rings (20/44 bytes) and 2-step scripts; ring wrap/padding is covered by the UDP and PacketBuffer harnesses. One known finding (ICMP errors quoting only 8 octets are not delivered to a UDP-bound ICMP socket).",
  ref="DESIGN.md 5/C09, 14"),
 "C10": dict(
  tech="dispatch_ip / dispatch / socket_egress on symbolic packets with a frame-capturing TxToken; harness-side independent well-formedness checks and RFC 1071 reference checksums; reply-source checks in the ingress harnesses",
  text="For UDP, TCP (SYN with MSS+WS+SACK-permitted(+TS), data with TS and a SACK block), ICMPv4 echo and ARP replies with all field values symbolic (Ethernet, MTU 1500, tx checksums on): the captured frame has the exact length, correct Ethernet addresses/ethertype, IPv4 ihl/total length/ttl/protocol/addresses, a header checksum and L4 checksums that verify under an independent reference, TCP data offset and an option list that is well-formed, terminated and zero-padded; every reply built on ingress (RST, ICMP errors, echo replies, NDISC/ARP) has a source that is one of the interface's own unicast addresses.",
  note="Concrete MTU 1500 and concrete time (symbolic values exhaust 8 GB); payloads 2-4 bytes; IPv6/6LoWPAN frame layout is checked through C20/C06 templates; oversize (fragmented) frames are C12's grid.",
  ref="DESIGN.md 5/C10, 13"),
 "C11": dict(
  tech="process_ip / process_ethernet on byte-template packets with fully symbolic IPv4 addresses (32 bits each) and IPv6 addresses (9/4 symbolic octets covering every class), ports, flags, against a harness-side address classification",
  text="For every source/destination class (own unicast, foreign unicast, subnet and limited broadcast, joined/unjoined multicast, all-nodes, solicited-node, unspecified, loopback) and every port relation: packets not addressed to the interface are neither delivered nor answered; a socket only receives traffic matching its endpoint; no TCP reset or ICMP error is sent towards or because of a non-unicast address nor in answer to a reset or ICMP error; TCP to broadcast/multicast never changes a socket; frames for another station are ignored; packets with a wrong IP/L4 checksum have no effect at all.",
  note="One socket per harness (three in the set exhaust the solver); raw-IP medium for the IP layer, Ethernet for the link filter; 802.15.4 PAN filtering is in C20/C03's harnesses. Two known findings (ICMPv6 Parameter Problem code 1 to multicast, enforced by /repo's own test; ::1 accepted without being configured).",
  ref="DESIGN.md 5/C11, 14"),
 "C14": dict(
  tech="model-based one-step checks of every public RingBuffer / PacketBuffer operation from arbitrary (API-reachable) states against a ghost queue",
  text="For every capacity 0..=6, every read position/length and every argument: each of the 17 RingBuffer operations returns, keeps and stores exactly what a simple queue model says (incl. the unallocated window used by TCP reassembly), never exceeds capacity; PacketBuffer (<= 3 metadata slots, payload ring <= 8, state = empty buffer at any read pointers + 3 symbolic public steps) returns (header, payload) pairs whole, in order, once; a refused enqueue or declined dequeue leaves the queue unchanged; an empty buffer accepts any size <= capacity through either enqueue interface.",
  note="Capacities above the bounds outside; element type u8.",
  ref="DESIGN.md 5/C14"),
 "C15": dict(
  tech="one-step checks from arbitrary canonical tracker states (shown API-reachable) against a membership predicate; real 4-operation history against a bitmap",
  text="For every tracker state with hole/data sizes <= 16 and every offset/size <= 40: add is exactly set union, refused only when more than MAX disjoint ranges would be needed and then leaves the tracker bit-identical, touching ranges merge, remove_front shifts by what it returns, add_then_remove_front never fails at offset 0, iter_data/peek_front/is_empty agree; MAX = 4 and 3 in the quick tier, 8 in the thorough tier.",
  note="MAX = 32 not reached (solver budget); sizes above the bounds outside.",
  ref="DESIGN.md 5/C15"),
}

def main():
    claimed = [a for a in sys.argv[1:] if a in P]
    props = [json.loads(l) for l in open(os.path.join(VERIF, "properties.jsonl"))]
    pending = {}
    pf = os.path.join(VERIF, "tools", "not_applicable.json")
    if os.path.exists(pf):
        pending = json.load(open(pf))
    checks = []
    for p in props:
        i = p["id"]
        if i not in claimed:
            continue
        e = P[i]
        checks.append({
            "property_id": i,
            "quick_cmd": "./check %s --tier quick" % i,
            "thorough_cmd": "./check %s --tier thorough" % i,
            "evidence_file": "/verif/evidence/%s.json" % i,
            "replay_cmd_template": "./check --replay {path}",
            "engine": "kani-cbmc",
            "technique": TECH + e["tech"],
            "level_claimed": {"category": "model_checking", "text": e["text"], "design_ref": e["ref"]},
            "level_note": e["note"] + NOTE_COMMON,
        })
    m = {
        "version": 1,
        "setup_cmd": "./check --self-test",
        "hooks": {
            "guard": "cfg(kani)",
            "enable": "no source hooks are committed: each check copies /repo's working tree to a scratch directory, appends `#[cfg(kani)] include!(<harness>)` lines per harness/splice.json and runs cargo kani there",
            "baseline_off_cmd": "cd /repo && cargo test --workspace --no-fail-fast --offline",
            "source_commits": [],
            "add_only": True,
        },
        "engines": [{"name": "kani-cbmc", "path": "/verif/check", "serves_properties": claimed,
                     "kind_free_text": "Kani 0.68.0 (rustc MIR -> goto) + CBMC 6.11.0 + CaDiCaL; native replay of counterexamples with Kani's playback sysroot"}],
        "checks": checks,
        "not_applicable": [{"property_id": p["id"], "reason": pending.get(p["id"], "check under construction in this session; not yet claimed")}
                           for p in props if p["id"] not in claimed],
        "notes": "Solver-based checking of the real code (see DESIGN.md). Genuine defects found are fixed in /repo as 'fix:' commits or listed in known_findings.json.",
    }
    json.dump(m, open(os.path.join(VERIF, "MANIFEST.json"), "w"), indent=1)
    print("claimed:", claimed)

if __name__ == "__main__":
    main()
