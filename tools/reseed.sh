#!/bin/bash
# usage: tools/reseed.sh <seed-dir-prefix> "<check args>" [...]
# Re-runs checks against a stored seeded change: a scratch worktree of /repo's HEAD (under /tmp, removed afterwards)
# gets seeded/<id>/patch.diff applied and is passed to ./check through VERIF_REPO; /repo itself is not touched.
set -u
ID=$(basename $(ls -d /verif/seeded/$1* | head -1)); shift
WT=/tmp/seedwt.$$
git -C /repo worktree add -q --detach $WT HEAD || exit 2
P=/verif/seeded/$ID/patch.diff
# patch_head.diff = the same change re-based by hand where later fix: commits moved the context
[ -f /verif/seeded/$ID/patch_head.diff ] && P=/verif/seeded/$ID/patch_head.diff
( cd $WT && git apply $P ) || { echo "patch does not apply to HEAD"; git -C /repo worktree remove --force $WT; exit 2; }
for args in "$@"; do
  tag=$(echo $args | tr ' ,' '__' | tr -cd 'A-Za-z0-9_')
  out=/verif/seeded/$ID/check_rerun_$tag.out
  (cd /verif && VERIF_REPO=$WT ./check $args > $out 2>&1; echo "exit=$?" >> $out)
  echo "$ID [$args]: $(tail -1 $out) violations=$(grep -c '^VIOLATION' $out)"
done
git -C /repo worktree remove --force $WT
